#!/usr/bin/python3
"""C14 - appending a file keeps both populations whole and their references separate.
E-hist: all sequences Read(A) Append(B) [Append(C)] over populations whose ids overlap (identical,
sparse, around multiples of 1000) and whose references (plain, in aggregates, in selects, in complex
parts, forward) name ids that ALSO exist in the earlier file with a type-correct instance."""
import sys, os, json, re, itertools
sys.path.insert(0, '/verif')
sys.path.insert(0, '/verif/checks')
from vlib import common, build, smodel, p21ref, p21run, drv

PID = 'C14'

# instance templates over family I (+support); ids are symbolic a,b,c.. and mapped by an id pattern
# value marker %V is replaced by a per-file number so that A's and B's instances differ in value
BASE = ["#1=TGT(%V1);", "#2=TGT(%V2);", "#3=TGT2('s%V3');"]
REFPAT = {
    'plain': ["#4=AB2('n%V',1.5,#1);"],
    'aggregate': ["#4=K0(DINT(%V),(#1,#2));"],
    'select': ["#4=K1(DINT(%V),(#2),#3,(1.5,2.5));"],
    'select-entity-first': ["#4=K1(DINT(%V),(#1),#1,(1.5,2.5));"],
    'complex-part': ["#4=(AB('n%V')AB2(1.5,#2));"],
    'forward': ["#4=AB2('n%V',1.5,#5);", "#5=TGT(%V5);"],
    'self-chain': ["#4=M12(%V,'q',#1);", "#5=M12(%V,'r',#1);"],
    'select-aggregate': ["#4=KS(%V,(#1,#3),(#2,DREAL(1.5)));"],
    'select-aggregate-fwd': ["#4=KS(%V,(#5),(COLOR(.RED.),#5));", "#5=TGT(%V5);"],
    # a typed select value whose member is a defined aggregate of references
    'typed-select-aggregate': ["#4=KT(%V,TGT_LIST((#1,#2)));"],
    'typed-select-aggregate-fwd': ["#4=KT(%V,TGT_LIST((#5,#1)));", "#5=TGT(%V5);"],
    # a reference held in an explicitly redeclared attribute (SELF\\hold.item : tgtsub) - read through the redefining attribute
    'redeclared-attribute': ["#4=SHOLD(#5,'t%V',%V);", "#5=TGTSUB(%V5,7);"],
    'redeclared-attribute-backward': ["#4=TGTSUB(%V4,7);", "#5=SHOLD(#4,'t%V',%V);"],
    # Part 21 comments around the references inside aggregates (a comment is a token separator wherever it stands)
    'aggregate-commented-elements': ["#4=K0(DINT(%V),(#1, /* second */ #2));"],
    'aggregate-commented-first': ["#4=K0(DINT(%V),( /* first */ #2,#1 /* behind */ ));"],
    'select-aggregate-commented': ["#4=KS(%V,(#1, /* c */ #3),(#2, /* c */ DREAL(1.5), /* d */ #1));"],
    'typed-select-aggregate-commented': ["#4=KT(%V,TGT_LIST((#1, /* c */ #2)));"],
    'plain-commented': ["#4=AB2('n%V',1.5, /* ref */ #1);"],
    'none': [],
}
IDPAT = {
    'dense': lambda i: i,
    'sparse': lambda i: i * 37 + 5,
    'k-boundary': lambda i: 997 + i,          # 998, 999, 1000, 1001, 1002
    'two-k': lambda i: {1: 1, 2: 1999, 3: 2000, 4: 2001, 5: 3999}[i],
    'large': lambda i: 1000000 + i * 499,
    'reversed': lambda i: 60 - i * 10,
    # legal but unusual: the largest id is not on the last instance (and the last one lies a whole thousand below it)
    'high-first': lambda i: {1: 2003, 2: 2004, 3: 10, 4: 11, 5: 12}[i],
    'high-middle': lambda i: {1: 7, 2: 5999, 3: 8, 4: 9, 5: 10}[i],
    # the LAST instance carries the largest id, thousands above all the others (and another id lies between)
    'gap-last-4': lambda i: {1: 10, 2: 20, 3: 3000, 4: 5000, 5: 15}[i],
    'gap-last-5': lambda i: {1: 10, 2: 20, 3: 3000, 4: 40, 5: 5000}[i],
}


def schema():
    """family I + an entity whose attributes are aggregates of SELECTs (entity members and a mixed select)"""
    S, N, A = smodel.Simple, smodel.Named, smodel.Aggr
    fam = smodel.family_I('fi')
    fam.add(smodel.Entity('ks', [smodel.Attr('n', S('INTEGER')), smodel.Attr('sels', A('LIST', 0, None, N('selent'))), smodel.Attr('mix', A('SET', 0, None, N('selmix')))]))
    fam.add(smodel.TypeDecl('tgt_list', A('LIST', 0, None, N('tgt'))), smodel.TypeDecl('sel_tl', ('select', ['tgt_list', 'dstr'])),
            smodel.Entity('kt', [smodel.Attr('n', S('INTEGER')), smodel.Attr('pick', N('sel_tl'))]))
    fam.add(smodel.Entity('hold', [smodel.Attr('item', N('tgt')), smodel.Attr('tag', S('STRING'))]),
            smodel.Entity('shold', [smodel.Attr('item', N('tgtsub'), redeclares='hold'), smodel.Attr('extra', S('INTEGER'))], supers=['hold']))
    return fam


def make_file(schema, fileno, refpat, idpat):
    lines = BASE + REFPAT[refpat]
    f = IDPAT[idpat[fileno - 1] if isinstance(idpat, (list, tuple)) else idpat]
    out = []
    for l in lines:
        l = re.sub(r'%V(\d?)', lambda m: str(fileno * 100 + int(m.group(1) or 0)), l)
        l = re.sub(r'#(\d+)', lambda m: '#%d' % f(int(m.group(1))), l)
        out.append(l)
    return smodel.file_text(schema, out)


def append_case(case):
    d = p21run._G['d']
    d.recycle_if_big()
    res = {}
    try:
        d.cmd('new')
        naming = case.get('naming')
        for k, txt in enumerate(case['files']):
            # how the files are named must not matter: by default f0.stp, f1.stp ...; 'same-base': every file is called part.stp, each in a directory
            # of its own (absolute names); 'same-base-relative': the same, named relative to the working directory; 'same-file': one file, given again
            if naming in ('same-base', 'same-base-relative'):
                os.makedirs(os.path.join(d.dir, 'dir%d' % k), exist_ok=True)
                p = os.path.join(d.dir, 'dir%d' % k, 'part.stp')
            elif naming == 'same-file':
                p = os.path.join(d.dir, 'f0.stp')
            else:
                p = os.path.join(d.dir, 'f%d.stp' % k)
            with open(p, 'wb') as f:
                f.write(txt.encode('latin1'))
            if naming == 'same-base-relative':
                p = os.path.relpath(p, d.dir)
            a = d.cmd(('read ' if k == 0 else 'append ') + p)
            res['sev%d' % k] = drv.kv(a[0])['esev']
        res['dump'] = drv.parse_dump(d.cmd('dump'))
        o = os.path.join(d.dir, 'out.stp')
        try:
            os.remove(o)
        except OSError:
            pass
        d.cmd('write ' + o)
        res['out'] = open(o, 'rb').read() if os.path.exists(o) else None
    except drv.Crash as e:
        res.update(p21run.crash_result(e))
    return res


def parse_inst_text(txt):
    lx = p21ref.Lexer(txt.strip())
    idt = int(lx.match(p21ref.RE_REF, 'id')[1:])
    lx.expect(b'=')
    if lx.peek() == b'(':
        lx.i += 1
        parts = []
        while not lx.accept(b')'):
            parts.append(p21ref.parse_record(lx))
        return idt, sorted(parts)
    return idt, [p21ref.parse_record(lx)]


def shift(v, delta):
    if v[0] == 'ref':
        return ('ref', v[1] + delta)
    if v[0] == 'typed':
        return ('typed', v[1], shift(v[2], delta))
    if v[0] == 'list':
        return ('list', [shift(x, delta) for x in v[1]])
    return v


def judge(case, res):
    ctx = '%s/%s' % (case['refpats'][-1], case['idpat'] if isinstance(case['idpat'], str) else '+'.join(case['idpat']))
    if case.get('naming'):
        ctx = 'files-named:' + case['naming']      # what decides such a failure is the naming, not the reference pattern
    if 'crash' in res:
        return [('crash/%s/%s' % tuple(res['crash']), 'crash %s in %s' % tuple(res['crash']))]
    pops = [p21ref.parse_file(t.encode('latin1')) for t in case['files']]
    for k in range(len(pops)):
        if res.get('sev%d' % k, 3) < 2:
            return [('append-error/file%d/%s' % (k, ctx), 'reading/appending conforming file %d gives severity %d' % (k, res['sev%d' % k]))]
    out = []
    got = []
    for iid, st, en, txt in res['dump']:
        try:
            got.append(parse_inst_text(txt))
        except p21ref.P21Error as e:
            return [('dump-unparsable/%s' % ctx, str(e))]
    total = sum(len(p.insts) for p in pops)
    if len(got) != total:
        out.append(('instance-count/%s' % ctx, '%d instances after append, expected %d' % (len(got), total)))
        return out
    pos = 0
    maxid = 0
    for k, p in enumerate(pops):
        seg = got[pos:pos + len(p.insts)]
        pos += len(p.insts)
        if k == 0:
            delta = 0
        else:
            delta = seg[0][0] - p.insts[0].id
            if delta <= maxid - min(i.id for i in p.insts) and not all(g[0] > maxid for g in seg):
                pass
            if not all(g[0] > maxid for g in seg):
                out.append(('offset-not-above-earlier-ids/%s' % ctx, 'file %d appended with offset %d but earlier max id is %d' % (k, delta, maxid)))
        for inst, (gid, gparts) in zip(p.insts, seg):
            if gid != inst.id + delta:
                out.append(('offset-not-common/%s' % ctx, 'file %d: #%d became #%d, offset of first instance is %d' % (k, inst.id, gid, delta)))
                continue
            want = sorted((kw, [shift(v, delta) for v in params]) for kw, params in inst.parts)
            if [kw for kw, _ in want] != [kw for kw, _ in gparts]:
                out.append(('type/%s' % ctx, '#%d parts %s -> %s' % (inst.id, [kw for kw, _ in want], [kw for kw, _ in gparts])))
                continue
            for (kw, pw), (_, pg) in zip(want, gparts):
                for idx, (x, y) in enumerate(zip(pw, pg)):
                    dd = p21ref.value_diff(x, y)
                    if dd:
                        what = 'earlier-file-instance-changed' if k == 0 else ('reference-not-shifted' if 'ref' in dd else 'value')
                        out.append(('%s/%s/%s' % (what, dd, ctx), 'file %d #%d(+%d) %s attr %d: expected %s, got %s' % (k, inst.id, delta, kw, idx, p21ref.render(x), p21ref.render(y))))
        maxid = max([maxid] + [g[0] for g in seg])
    # the written file agrees with the manager contents
    if res.get('out') is None:
        out.append(('no-output/%s' % ctx, 'nothing written after append'))
    elif not out:
        try:
            w = p21ref.parse_file(res['out'])
            wl = [(i.id, sorted(i.parts)) for i in w.insts]
            for (gid, gparts), (wid, wparts) in zip(got, wl):
                if gid != wid or [k for k, _ in gparts] != [k for k, _ in wparts] or any(
                        p21ref.value_diff(x, y) for (_, a), (_, b) in zip(gparts, wparts) for x, y in zip(a, b)):
                    out.append(('written-file-differs/%s' % ctx, '#%d written as #%d %s' % (gid, wid, wparts)))
                    break
            if len(wl) != len(got):
                out.append(('written-file-count/%s' % ctx, '%d written, %d in manager' % (len(wl), len(got))))
        except p21ref.P21Error as e:
            out.append(('output-syntax/%s' % ctx, str(e)))
    return out


def gen(tier):
    rps = list(REFPAT)
    # the files of one history with DIFFERENT id patterns: the first file decides the offset, the later ones what is shifted
    pats = list(IDPAT)
    for pa in pats:
        for pb in pats:
            if pa == pb:
                continue
            for rb in (['plain', 'select-aggregate', 'typed-select-aggregate'] if tier == 'quick' else rps):
                yield ['plain', rb], (pa, pb)
            if tier != 'quick' or pa in ('high-first', 'high-middle', 'reversed'):
                yield ['none', 'plain', 'aggregate'], (pa, pb, pa)
    for idpat in IDPAT:
        for ra in (['none', 'plain'] if tier == 'quick' else rps):
            for rb in rps:
                yield ['%s' % ra, rb], idpat
        if True:
            trip = [('plain', 'aggregate', 'select'), ('none', 'forward', 'complex-part'), ('plain', 'plain', 'plain')] if tier == 'quick' else \
                itertools.product(['none', 'plain'], rps, rps)
            for t in trip:
                yield list(t), idpat


def replay(path):
    obj = json.load(open(path))
    case = obj['case']
    fam = schema()
    lib = build.schema_lib(fam.express(), 'plain')
    r = p21run.run_many(lib, [case], fn=append_case, procs=1)[0]
    for k, t in enumerate(case['files']):
        print('file %d:\n%s' % (k, t.split('DATA;')[1]))
    print('manager after append:')
    for iid, st, en, txt in r.get('dump', []):
        print('  ', txt.decode('latin1').strip().replace('\n', ''))
    v = judge(case, r)
    print('verdict:', v)
    return 1 if v else 0


def main():
    args = common.parse_args(sys.argv[1:])
    if args.replay:
        sys.exit(replay(args.replay))
    chk = common.Check(PID, args.tier, deadline_s=args.deadline)
    chk.rule = ('E-hist: every sequence Read(A) Append(B) [Append(C)] with A,B,C from reference patterns %s x id patterns %s (the same ids in every '
                'file, so that every reference of an appended file also names a type-correct instance of the earlier file); state = (files), transition '
                '= one history on the real STEPfile; oracle = dict model (A unchanged, B = ids + one common offset > max earlier id, references shifted)'
                % (sorted(REFPAT), sorted(IDPAT)))
    chk.assumptions = ['ids whose shifted value would exceed INT_MAX are not generated', 'p21ref correct']
    fam = schema()
    lib = build.schema_lib(fam.express(), 'plain')
    cases = []
    for rps_, idpat in gen(args.tier):
        files = [make_file('fi', k + 1, rp, idpat) for k, rp in enumerate(rps_)]
        cases.append({'files': files, 'refpats': rps_, 'idpat': idpat})
    # the first histories again under every way of naming the files
    for c in list(cases[:(8 if args.tier == 'quick' else 60)]):
        for naming in ('same-base', 'same-base-relative'):
            cases.append(dict(c, naming=naming))
        cases.append(dict(c, naming='same-file', files=[c['files'][0]] * len(c['files'])))
    results = p21run.run_many(lib, cases, fn=append_case, chunksize=4)
    for c, r in zip(cases, results):
        chk.count(states=1, transitions=len(c['files']))
        chk.cls('%d-files/%s' % (len(c['files']), c['idpat'] if isinstance(c['idpat'], str) else 'mixed:' + c['idpat'][0]))
        v = judge(c, r)
        if not v:
            chk.outcome('ok')
            chk.sample({'refpats': c['refpats'], 'idpat': c['idpat']}, maxn=6)
        for kp, what in v:
            chk.outcome(kp.split('/')[0])
            chk.violation('%s/%s' % (PID, kp), what, dict(c))
    chk.bounds['histories'] = len(cases)
    if chk.outcomes.get('ok', 0) == 0:
        chk.harness_error('vacuous: no history passed')
    sys.exit(chk.finish())


if __name__ == '__main__':
    main()
