// STEPfile seam.  Commands (one per line on stdin), answers on fd 3 terminated by a "." line.
//   new [strict]            fresh InstMgr + STEPfile (same Registry)
//   read F | append F | readws F | appendws F      -> "sev <n> errs <n> warns <n>"
//   ctor F [strict]                                   the same through STEPfile's constructor
//   write F | writews F     -> "sev <n>"
//   dump                    -> per instance: "I <id> <state> <ENTITY> <hex of STEPwrite text>"
//   hdr                     -> per header instance the same
//   setstate <id> <state>   state in C I D N
//   count                   -> "n <count> max <maxfileid>"
//   quit
#include "drv_common.h"
#include "cleditor/STEPfile.h"
#include "clstepcore/instmgr.h"
#include "clstepcore/mgrnode.h"

static Registry * reg = 0;
static InstMgr * im = 0;
static STEPfile * sf = 0;

static char stch( stateEnum s ) {
    switch( s ) {
        case completeSE:
            return 'C';
        case incompleteSE:
            return 'I';
        case deleteSE:
            return 'D';
        case newSE:
            return 'N';
        default:
            return '?';
    }
}

static void fresh( bool strict ) {
    // the old objects are leaked on purpose: destruction order problems in the library
    // must not be attributed to the next command
    im = new InstMgr();
    sf = new STEPfile( *reg, *im, "", strict );
}

static void dumpmgr( InstMgr * m ) {
    int n = m->InstanceCount();
    for( int i = 0; i < n; i++ ) {
        MgrNode * mn = m->GetMgrNode( i );
        SDAI_Application_instance * se = mn->GetApplication_instance();
        std::ostringstream os;
        se->STEPwrite( os );
        fprintf( g_out, "I %d %c %s %s\n", se->StepFileId(), stch( mn->CurrState() ), se->EntityName(), hexenc( os.str() ).c_str() );
    }
}

int main( int argc, char ** argv ) {
    SchemaInitFn init = drv_load( argc, argv );
    reg = new Registry( init );
    fresh( false );
    fputs( "ready\n", g_out );
    done();
    std::string line;
    while( std::getline( std::cin, line ) ) {
        drv_logreset();
        std::istringstream ls( line );
        std::string cmd, a, b;
        ls >> cmd >> a >> b;
        if( cmd == "quit" ) {
            break;
        } else if( cmd == "new" ) {
            fresh( a == "strict" );
        } else if( cmd == "ctor" ) {
            // a session whose constructor is handed the file name (and reads it): ctor <file> [strict]
            im = new InstMgr();
            sf = new STEPfile( *reg, *im, a, b == "strict" );
            if( sf->Error().severity() < SEVERITY_NULL ) {
                sf->Error().PrintContents( std::cout );
            }
            fprintf( g_out, "sev %d esev %d errs %d warns %d\n", ( int ) sf->Error().severity(), ( int ) sf->Error().severity(), sf->ErrorCount(), sf->WarningCount() );
        } else if( cmd == "read" || cmd == "append" || cmd == "readws" || cmd == "appendws" ) {
            Severity s;
            if( cmd == "read" ) {
                s = sf->ReadExchangeFile( a );
            } else if( cmd == "append" ) {
                s = sf->AppendExchangeFile( a );
            } else if( cmd == "readws" ) {
                s = sf->ReadWorkingFile( a );
            } else {
                s = sf->AppendWorkingFile( a );
            }
            if( sf->Error().severity() < SEVERITY_NULL ) {
                sf->Error().PrintContents( std::cout );
            }
            fprintf( g_out, "sev %d esev %d errs %d warns %d\n", ( int ) s, ( int ) sf->Error().severity(), sf->ErrorCount(), sf->WarningCount() );
        } else if( cmd == "write" || cmd == "writews" ) {
            Severity s;
            if( cmd == "write" ) {
                s = sf->WriteExchangeFile( a );
            } else {
                s = sf->WriteWorkingFile( a );
            }
            fprintf( g_out, "sev %d esev %d\n", ( int ) s, ( int ) sf->Error().severity() );
        } else if( cmd == "dump" ) {
            dumpmgr( im );
        } else if( cmd == "hdr" ) {
            if( sf->HeaderInstances() ) {
                dumpmgr( sf->HeaderInstances() );
            }
        } else if( cmd == "count" ) {
            fprintf( g_out, "n %d max %d\n", im->InstanceCount(), im->MaxFileId() );
        } else if( cmd == "setstate" ) {
            MgrNode * mn = im->FindFileId( atoi( a.c_str() ) );
            if( !mn ) {
                fputs( "ERR noid\n", g_out );
            } else {
                stateEnum s = completeSE;
                switch( b.c_str()[0] ) {
                    case 'I':
                        s = incompleteSE;
                        break;
                    case 'D':
                        s = deleteSE;
                        break;
                    case 'N':
                        s = newSE;
                        break;
                    default:
                        break;
                }
                im->ChangeState( mn, s );
                fputs( "ok\n", g_out );
            }
        } else {
            fputs( "ERR unknown\n", g_out );
        }
        done();
    }
    fflush( g_out );
    _exit( 0 );
}
