// instmgr_mc -- bounded exhaustive explorer for InstMgr (property C13).
//
// Explicit-state breadth-first search over operation histories on the REAL InstMgr.
// A state is the first (shortest, lexicographically smallest) history reaching it; it is rebuilt
// by replaying that history on a fresh manager.  After every transition ALL public queries are
// compared with a list+dict reference model; the answers (as indices, never as pointers) plus the
// hidden fields that steer future behaviour (array capacity/_count, maxFileId, ownership flag, the
// content of the id map, the pool of instances released by ClearInstances) form the canonical
// state, of which a 128-bit hash is used for de-duplication.
//
//   instmgr_mc explore DEPTH JOBS KIND[,KIND...]     JSON on stdout
//   instmgr_mc replay KIND OP[,OP...]                one line per step; exit 1 when it violates
//   instmgr_mc ops                                   lists the alphabet
// KIND: own | non | own-small | non-small   (owning / non-owning manager; "-small" = the master
//       MgrNodeArray is created with capacity 1 so that GenNodeArray::Check growth is reached)
#include <stdio.h>
#include <stdlib.h>
#include <string.h>
#include <stdint.h>
#include <stdarg.h>
#include <unistd.h>
#include <poll.h>
#include <errno.h>
#include <sys/mman.h>
#include <sys/wait.h>
#include <signal.h>
#include <fcntl.h>
#include <string>
#include <vector>
#include <map>
#include <set>
#include <algorithm>

#include "clstepcore/sdai.h"
#include "clstepcore/instmgr.h"
#include "clstepcore/mgrnode.h"
#include "clstepcore/mgrnodearray.h"
#include "clstepcore/Registry.h"
#include "cleditor/SdaiHeaderSchema.h"
#include "cleditor/SdaiSchemaInit.h"

typedef SDAI_Application_instance AI;

// ---------------------------------------------------------------------------------- alphabet
enum { T_DESC = 0, T_SCHEMA = 1 };
// the two lightest header entities (2 and 1 attributes): instance construction dominates the cost of a replay
static const char * TNAME[2] = { "File_Description", "File_Schema" };
static const char TCH[2] = { 'D', 'S' };
// spellings used for the look-ups by name; [2] is a name no instance ever has, [5] and [6] are proper prefixes of names that instances do
// have and [7] extends one (a look-up by name is a comparison of whole names)
#define NQ 8
static const char * QNAME[NQ] = { "File_Description", "File_Schema", "File_Name", "FILE_DESCRIPTION", "file_schema", "File_", "File_Sch", "File_Schemas" };
static const int QTYPE[NQ] = { T_DESC, T_SCHEMA, -1, T_DESC, T_SCHEMA, -1, -1, -1 };

static const stateEnum STATES[4] = { completeSE, incompleteSE, deleteSE, newSE };
static const char STCH[4] = { 'C', 'I', 'D', 'N' };
static char stch( int s ) {
    switch( s ) {
        case completeSE: return 'C';
        case incompleteSE: return 'I';
        case deleteSE: return 'D';
        case newSE: return 'N';
        default: return '?';
    }
}

enum OpClass { OC_AUTO, OC_HIGH, OC_LOW, OC_DUP, OC_SAME, OC_REL, OC_DELN, OC_DELI, OC_CS, OC_CLEAR, OC_DELALL, OC_NEXT, OC_N };
static const char * OCNAME[OC_N] = { "Append-auto", "Append-explicit-high", "Append-explicit-low", "Append-duplicate-id",
                                     "Append-same-instance", "Append-released", "Delete-node", "Delete-instance",
                                     "ChangeState", "ClearInstances", "DeleteInstances", "NextFileId" };
enum { P_FIRST = 0, P_MID = 1, P_LAST = 2 };
static const char PCH[3] = { 'f', 'm', 'l' };
static const char * PNAME[3] = { "first", "middle", "last" };

struct OpDef {
    int cls;
    int type;   // entity type for the Append(new ...) classes
    int pos;    // P_* for positional ops; for OC_REL 0 = lowest id, 2 = highest id
    int st;     // index into STATES for ChangeState
    char name[8];
};
static std::vector<OpDef> OPS;

static void add_op( int cls, int type, int pos, int st, const std::string & name ) {
    OpDef d;
    d.cls = cls;
    d.type = type;
    d.pos = pos;
    d.st = st;
    memset( d.name, 0, sizeof d.name );
    strncpy( d.name, name.c_str(), 7 );
    OPS.push_back( d );
}

static void build_ops() {
    for( int t = 0; t < 2; t++ ) add_op( OC_AUTO, t, 0, 0, std::string( "A0" ) + TCH[t] );
    for( int t = 0; t < 2; t++ ) add_op( OC_HIGH, t, 0, 0, std::string( "AH" ) + TCH[t] );
    for( int t = 0; t < 2; t++ ) add_op( OC_LOW, t, 0, 0, std::string( "AL" ) + TCH[t] );
    for( int t = 0; t < 2; t++ ) {
        add_op( OC_DUP, t, P_FIRST, 0, std::string( "AD" ) + TCH[t] + 'f' );
        add_op( OC_DUP, t, P_LAST, 0, std::string( "AD" ) + TCH[t] + 'l' );
    }
    for( int p = 0; p < 3; p++ ) add_op( OC_SAME, 0, p, 0, std::string( "AS" ) + PCH[p] );
    add_op( OC_REL, 0, P_FIRST, 0, "ARlo" );
    add_op( OC_REL, 0, P_LAST, 0, "ARhi" );
    for( int p = 0; p < 3; p++ ) add_op( OC_DELN, 0, p, 0, std::string( "DN" ) + PCH[p] );
    for( int p = 0; p < 3; p++ ) add_op( OC_DELI, 0, p, 0, std::string( "DI" ) + PCH[p] );
    for( int p = 0; p < 3; p++ ) for( int s = 0; s < 4; s++ ) add_op( OC_CS, 0, p, s, std::string( "CS" ) + PCH[p] + STCH[s] );
    add_op( OC_CLEAR, 0, 0, 0, "CL" );
    add_op( OC_DELALL, 0, 0, 0, "DL" );
    add_op( OC_NEXT, 0, 0, 0, "NF" );
}

static int op_by_name( const std::string & s ) {
    for( size_t i = 0; i < OPS.size(); i++ ) if( s == OPS[i].name ) return ( int )i;
    return -1;
}

static std::string op_class_key( const OpDef & d ) {
    std::string k = OCNAME[d.cls];
    if( d.cls == OC_DELN || d.cls == OC_DELI ) {
        k += std::string( "-" ) + PNAME[d.pos];
    }
    return k;
}

// ---------------------------------------------------------------------------------- outcomes
enum Outcome {
    O_AUTO_ACCEPTED, O_AUTO_ID0, O_HIGH_ACCEPTED, O_LOW_ACCEPTED, O_LOW_REUSED_DELETED_ID, O_DUP_RENUMBERED, O_DUP_REJECTED,
    O_DUP_OF_ID0_AUTO, O_SAME_UNCHANGED, O_REL_SAME_ID, O_REL_RENUMBERED, O_REL_REJECTED, O_REL_ID0_AUTO,
    O_DELN_REMOVED, O_DELN_EMPTIED, O_DELI_REMOVED, O_DELI_EMPTIED, O_CS_CHANGED, O_CS_SAME,
    O_CLEAR_RELEASED, O_CLEAR_EMPTY, O_DELALL_DELETED, O_DELALL_EMPTY, O_NEXT, O_ARRAY_GROWN, O_MAX_ABOVE_LIVE, O_N
};
static const char * ONAME[O_N] = {
    "Append-auto:accepted", "Append-auto:got-id-0", "Append-explicit-high:accepted", "Append-explicit-low:accepted",
    "Append-explicit-low:reused-deleted-id", "Append-duplicate-id:renumbered", "Append-duplicate-id:rejected",
    "Append-duplicate-id:of-id-0-treated-as-auto", "Append-same-instance:unchanged", "Append-released:accepted-same-id",
    "Append-released:renumbered", "Append-released:rejected", "Append-released:id-0-treated-as-auto",
    "Delete-node:removed", "Delete-node:emptied", "Delete-instance:removed", "Delete-instance:emptied",
    "ChangeState:changed", "ChangeState:same-state", "ClearInstances:released", "ClearInstances:was-empty",
    "DeleteInstances:deleted", "DeleteInstances:was-empty", "NextFileId:handed-out", "array-grown", "MaxFileId-strictly-above-every-live-id"
};

// ---------------------------------------------------------------------------------- hashing
struct H128 {
    uint64_t a, b;
    bool operator==( const H128 & o ) const { return a == o.a && b == o.b; }
    bool operator!=( const H128 & o ) const { return !( *this == o ); }
};
static inline uint64_t mix64( uint64_t x ) {
    x ^= x >> 30; x *= 0xbf58476d1ce4e5b9ULL; x ^= x >> 27; x *= 0x94d049bb133111ebULL; x ^= x >> 31;
    return x;
}
static H128 hash_ints( const std::vector<int> & v ) {
    uint64_t a = 0x9e3779b97f4a7c15ULL, b = 0xc2b2ae3d27d4eb4fULL;
    for( size_t i = 0; i < v.size(); i++ ) {
        uint64_t x = ( uint64_t )( uint32_t )v[i];
        a = mix64( a ^ ( x + 0x165667b19e3779f9ULL + ( a << 6 ) + ( a >> 2 ) ) );
        b = mix64( ( b + x ) * 0xff51afd7ed558ccdULL + i );
    }
    H128 h;
    h.a = mix64( a ^ v.size() );
    h.b = mix64( b ^ ( a >> 1 ) );
    if( h.a == 0 && h.b == 0 ) h.b = 1;   // (0,0) marks an empty slot
    return h;
}

// open addressing set of H128
struct HSet {
    std::vector<H128> t;
    size_t n, mask;
    HSet() : n( 0 ) { t.assign( 1 << 12, H128{0, 0} ); mask = t.size() - 1; }
    bool has( const H128 & h ) const {
        size_t i = h.a & mask;
        while( t[i].a || t[i].b ) {
            if( t[i] == h ) return true;
            i = ( i + 1 ) & mask;
        }
        return false;
    }
    void grow() {
        std::vector<H128> o;
        o.swap( t );
        t.assign( o.size() * 2, H128{0, 0} );
        mask = t.size() - 1;
        for( size_t k = 0; k < o.size(); k++ ) if( o[k].a || o[k].b ) {
                size_t i = o[k].a & mask;
                while( t[i].a || t[i].b ) i = ( i + 1 ) & mask;
                t[i] = o[k];
            }
    }
    bool insert( const H128 & h ) {   // true when new
        if( ( n + 1 ) * 2 > t.size() ) grow();
        size_t i = h.a & mask;
        while( t[i].a || t[i].b ) {
            if( t[i] == h ) return false;
            i = ( i + 1 ) & mask;
        }
        t[i] = h;
        n++;
        return true;
    }
};

// ---------------------------------------------------------------------------------- the world
struct MEntry {
    AI * p;
    int id, type, state;
};

struct Kind {
    int owns;
    int small;
    const char * name;
};
static const Kind KINDS[4] = { {1, 0, "own"}, {0, 0, "non"}, {1, 1, "own-small"}, {0, 1, "non-small"} };
static int kind_by_name( const std::string & s ) {
    for( int i = 0; i < 4; i++ ) if( s == KINDS[i].name ) return i;
    return -1;
}

// small fixed-capacity dict / set (no heap traffic: the explorer builds millions of models)
#define MCAP 64
struct Dict {
    int k[MCAP];
    AI * v[MCAP];
    int n;
    Dict() : n( 0 ) {}
    int find( int key ) const { for( int i = 0; i < n; i++ ) if( k[i] == key ) return i; return -1; }
    int count( int key ) const { return find( key ) >= 0; }
    AI * get( int key ) const { int i = find( key ); return i < 0 ? 0 : v[i]; }
    void put( int key, AI * p ) {
        int i = find( key );
        if( i < 0 ) { if( n >= MCAP ) abort(); i = n++; k[i] = key; }
        v[i] = p;
    }
    void erase( int key ) { int i = find( key ); if( i >= 0 ) { n--; k[i] = k[n]; v[i] = v[n]; } }
    void clear() { n = 0; }
};
struct IdSet {
    Dict d;
    int count( int key ) const { return d.count( key ); }
    void insert( int key ) { d.put( key, 0 ); }
    void erase( int key ) { d.erase( key ); }
};

// reference model: a list (insertion order) + a dict (id -> instance); everything else is derived
struct Model {
    std::vector<MEntry> L;
    Dict D;
    std::vector<MEntry> released;       // instances handed back by ClearInstances, sorted by (id,type,age)
    int seenMax;                        // highest id seen/handed out since the manager was last emptied; -1 none
    int histMax;                        // highest id ever seen in this history (range of the id look-ups)
    IdSet deleted;                      // ids deleted and not live (only to label the id re-use outcome)
    Model() : seenMax( -1 ), histMax( 0 ) { L.reserve( 16 ); }
    int index_of( AI * p ) const {
        for( size_t i = 0; i < L.size(); i++ ) if( L[i].p == p ) return ( int )i;
        return -1;
    }
    int pos_index( int pos ) const {    // -1 when that position does not exist (or coincides with an earlier one)
        int n = ( int )L.size();
        if( pos == P_FIRST ) return n >= 1 ? 0 : -1;
        if( pos == P_LAST ) return n >= 2 ? n - 1 : -1;
        return n >= 3 ? n / 2 : -1;
    }
    int max_live() const {
        int m = -1;
        for( size_t i = 0; i < L.size(); i++ ) if( L[i].id > m ) m = L[i].id;
        return m;
    }
    int low_free() const {              // smallest positive id not live and below the highest live id; -1 none
        int m = max_live();
        for( int k = 1; k < m; k++ ) if( !D.count( k ) ) return k;
        return -1;
    }
    void saw( int id ) {
        if( id > seenMax ) seenMax = id;
        if( id > histMax ) histMax = id;
    }
};

struct World {
    InstMgr * im;
    Model m;
    int kind;
};

struct Viol {
    bool bad;
    std::string cls;    // disagreement class (second half of the finding key)
    std::string msg;
    Viol() : bad( false ) {}
    void set( const std::string & c, const std::string & s ) {
        if( !bad ) { bad = true; cls = c; msg = s; }
    }
};

static bool WANT_DESC = false;   // step descriptions are only built for single replays
static std::string fmt( const char * f, ... ) {
    char buf[2000];
    va_list ap;
    va_start( ap, f );
    int n = vsnprintf( buf, sizeof buf, f, ap );
    va_end( ap );
    if( n < 0 || n >= ( int )sizeof buf ) {
        fprintf( stderr, "fmt: buffer too small\n" );
        abort();
    }
    return buf;
}

static AI * new_instance( int type, int id ) {
    AI * p = ( type == T_DESC ) ? ( AI * ) new SdaiFile_description : ( AI * ) new SdaiFile_schema;
    p->StepFileId( id );
    return p;
}

static void world_init( World & w, int kind ) {
    w.kind = kind;
    w.im = new InstMgr( KINDS[kind].owns );
    if( KINDS[kind].small ) {
        delete w.im->master;                    // -fno-access-control: same class, smaller start capacity
        w.im->master = new MgrNodeArray( 1 );
    }
}

// regular end of a history: the manager is destroyed, the harness frees what it still owns
static void world_destroy( World & w ) {
    int owns = w.im->OwnsInstances();
    delete w.im;
    w.im = 0;
    if( !owns ) {
        for( size_t i = 0; i < w.m.L.size(); i++ ) delete w.m.L[i].p;
    }
    for( size_t i = 0; i < w.m.released.size(); i++ ) delete w.m.released[i].p;
    w.m = Model();
}

static bool rel_less( const MEntry & a, const MEntry & b ) {
    if( a.id != b.id ) return a.id < b.id;
    return a.type < b.type;
}

// ---------------------------------------------------------------------------------- queries
// Compares every public query with the model.  Appends the answers to canon (when given).
static void check_all( World & w, Viol & v, std::vector<int> * canon ) {
    InstMgr * im = w.im;
    Model & m = w.m;
    int n = im->InstanceCount();
    if( canon ) { canon->push_back( w.kind ); canon->push_back( n ); }
    if( n != ( int )m.L.size() ) {
        v.set( "InstanceCount", fmt( "InstanceCount()=%d, live instances=%d", n, ( int )m.L.size() ) );
        return;
    }
    if( n > MCAP ) abort();
    MgrNode * nodes[MCAP];
    for( int i = 0; i < n; i++ ) {
        MgrNode * node = im->GetMgrNode( i );
        nodes[i] = node;
        if( !node ) { v.set( "GetMgrNode-null", fmt( "GetMgrNode(%d)=NULL with count %d", i, n ) ); return; }
        AI * inst = im->GetApplication_instance( i );
        if( inst != m.L[i].p ) {
            v.set( "GetApplication_instance(i)-wrong", fmt( "GetApplication_instance(%d) is %s, expected the %d-th surviving instance (#%d)",
                    i, m.index_of( inst ) >= 0 ? fmt( "live instance at model index %d", m.index_of( inst ) ).c_str() : "not a live instance", i, m.L[i].id ) );
            return;
        }
        if( im->GetSTEPentity( i ) != inst ) { v.set( "GetSTEPentity(i)-differs", fmt( "GetSTEPentity(%d) != GetApplication_instance(%d)", i, i ) ); return; }
        if( node->GetApplication_instance() != inst || im->GetApplication_instance( node ) != inst ) {
            v.set( "node-instance-wrong", fmt( "GetMgrNode(%d)->GetApplication_instance() is not the instance at index %d", i, i ) );
            return;
        }
        int ai = node->ArrayIndex();
        if( ai != i ) { v.set( "ArrayIndex-stale", fmt( "GetMgrNode(%d)->ArrayIndex()=%d", i, ai ) ); return; }
        int gi = im->GetIndex( node );
        if( gi != i ) { v.set( "GetIndex-stale", fmt( "GetIndex(GetMgrNode(%d))=%d", i, gi ) ); return; }
        int id = inst->StepFileId();
        if( id != m.L[i].id ) { v.set( "file-id-changed", fmt( "instance at index %d now carries #%d, it was #%d", i, id, m.L[i].id ) ); return; }
        if( node->GetFileId() != id ) { v.set( "node-file-id", fmt( "GetMgrNode(%d)->GetFileId()=%d, instance has #%d", i, node->GetFileId(), id ) ); return; }
        int st = ( int )node->CurrState();
        if( st != m.L[i].state ) { v.set( "CurrState", fmt( "node %d state %c, expected %c", i, stch( st ), stch( m.L[i].state ) ) ); return; }
        const char * en = inst->EntityName();
        int ty = !en ? -1 : !strcmp( en, TNAME[0] ) ? 0 : !strcmp( en, TNAME[1] ) ? 1 : -1;
        if( ty != m.L[i].type ) { v.set( "EntityName", fmt( "index %d EntityName %s", i, en ? en : "(null)" ) ); return; }
        if( canon ) { canon->push_back( id ); canon->push_back( ty ); canon->push_back( st ); }
    }
    int mx = im->MaxFileId();
    if( canon ) canon->push_back( mx );
    for( int i = 0; i < n; i++ ) if( mx < m.L[i].id ) {
            v.set( "MaxFileId-below-live", fmt( "MaxFileId()=%d but live instance at index %d has #%d", mx, i, m.L[i].id ) );
            return;
        }
    if( mx > m.histMax ) m.histMax = mx;
    int hi = m.histMax + 1;
    // look-up by id over the whole range of ids this history has ever seen, plus 0 and one above
    for( int k = 0; k <= hi; k++ ) {
        MgrNode * r = im->FindFileId( k );
        int got = -1;
        if( r ) {
            got = -2;
            for( int i = 0; i < n; i++ ) if( nodes[i] == r ) { got = i; break; }
        }
        int exp = m.D.count( k ) ? m.index_of( m.D.get( k ) ) : -1;
        if( canon ) canon->push_back( got );
        if( got != exp ) {
            if( exp == -1 ) v.set( "FindFileId-stale", fmt( "FindFileId(%d) returns %s but no live instance carries #%d", k, got >= 0 ? fmt( "the node at index %d", got ).c_str() : "a node that is not in the manager", k ) );
            else if( got == -1 ) v.set( "FindFileId-missing", fmt( "FindFileId(%d)=NULL but the live instance at index %d carries #%d", k, exp, k ) );
            else v.set( "FindFileId-wrong", fmt( "FindFileId(%d) returns %s, the live instance carrying #%d is at index %d", k, got >= 0 ? fmt( "the node at index %d", got ).c_str() : "a node that is not in the manager", k, exp ) );
            return;
        }
        InstMgrBase * base = im;
        if( ( MgrNode * )base->FindFileId( k ) != r ) { v.set( "FindFileId-base-differs", fmt( "InstMgrBase::FindFileId(%d) differs", k ) ); return; }
        for( int t = 0; t < 2; t++ ) {
            int ve = im->VerifyEntity( k, TNAME[t] );
            int vexp = ( exp < 0 ) ? 0 : ( m.L[exp].type == t ? 2 : 1 );
            if( canon ) canon->push_back( ve );
            if( ve != vexp ) { v.set( "VerifyEntity", fmt( "VerifyEntity(%d,%s)=%d expected %d", k, TNAME[t], ve, vexp ) ); return; }
        }
    }
    // look-up by entity name from every start index, and the per-name count
    for( int q = 0; q < NQ; q++ ) {
        int cnt = 0;
        for( int i = 0; i < n; i++ ) if( m.L[i].type == QTYPE[q] ) cnt++;
        int ec = im->EntityKeywordCount( QNAME[q] );
        if( canon ) canon->push_back( ec );
        if( ec != cnt ) { v.set( "EntityKeywordCount", fmt( "EntityKeywordCount(%s)=%d expected %d", QNAME[q], ec, cnt ) ); return; }
        for( int s = 0; s <= ( q < 3 ? n : 0 ); s++ ) {   // the two alternate spellings: start 0 only
            if( q == 2 && s != 0 && s != n ) continue;    // the absent name: first and last start only
            AI * r = im->GetApplication_instance( QNAME[q], s );
            int got = ( r == ENTITY_NULL ) ? -1 : ( r == 0 ? -3 : m.index_of( r ) );
            if( r != ENTITY_NULL && r != 0 && got < 0 ) got = -2;
            int exp = -1;
            for( int j = s; j < n; j++ ) if( m.L[j].type == QTYPE[q] ) { exp = j; break; }
            if( canon ) canon->push_back( got );
            if( got != exp ) {
                v.set( "name-lookup-wrong", fmt( "GetApplication_instance(%s,%d) gives index %d, first match at or after %d is %d (-1 = ENTITY_NULL, -2 = not a live instance, -3 = NULL)", QNAME[q], s, got, s, exp ) );
                return;
            }
            if( s == 0 && im->GetSTEPentity( QNAME[q], s ) != r ) { v.set( "GetSTEPentity(name)-differs", fmt( "GetSTEPentity(%s,%d) != GetApplication_instance(%s,%d)", QNAME[q], s, QNAME[q], s ) ); return; }
        }
        if( q < 2 && im->GetApplication_instance( QNAME[q] ) != im->GetApplication_instance( QNAME[q], 0 ) ) {
            v.set( "name-lookup-default-start", fmt( "GetApplication_instance(%s) != GetApplication_instance(%s,0)", QNAME[q], QNAME[q] ) );
            return;
        }
    }
    if( canon ) {
        // hidden fields that steer the future (read only, never dereferencing anything stale)
        canon->push_back( im->master->_bufsize );
        canon->push_back( im->master->_count );
        canon->push_back( im->_ownsInstances );
        canon->push_back( ( int )im->sortedMaster->size() );
        for( std::map<int, MgrNode *>::iterator it = im->sortedMaster->begin(); it != im->sortedMaster->end(); ++it ) {
            int at = -2;
            for( int i = 0; i < n; i++ ) if( nodes[i] == it->second ) { at = i; break; }
            canon->push_back( it->first );
            canon->push_back( at );
        }
        canon->push_back( ( int )m.released.size() );
        for( size_t i = 0; i < m.released.size(); i++ ) {
            canon->push_back( m.released[i].id );
            canon->push_back( m.released[i].type );
        }
        canon->push_back( -7 );
    }
}

// ---------------------------------------------------------------------------------- operations
static bool op_enabled( const Model & m, const OpDef & d ) {
    switch( d.cls ) {
        case OC_AUTO: case OC_HIGH: case OC_CLEAR: case OC_DELALL: case OC_NEXT:
            return true;
        case OC_LOW:
            return m.low_free() > 0;
        case OC_DUP: case OC_SAME: case OC_DELN: case OC_DELI: case OC_CS:
            return m.pos_index( d.pos ) >= 0;
        case OC_REL:
            return d.pos == P_FIRST ? m.released.size() >= 1 : m.released.size() >= 2;
    }
    return false;
}

struct StepInfo {
    std::string desc;
    int outcome[4];
    int noutcome;
    StepInfo() : noutcome( 0 ) {}
    void out( int o ) { if( noutcome < 4 ) outcome[noutcome++] = o; }
};

// common part of every Append of an instance that is not in the manager.
// released_ix >= 0: the instance comes from the released pool.  Returns false on a violation.
static void do_append( World & w, const OpDef & d, AI * p, int type, stateEnum st, int released_ix, Viol & v, StepInfo & si ) {
    InstMgr * im = w.im;
    Model & m = w.m;
    int rq = p->StepFileId();
    bool dup = rq != 0 && m.D.count( rq );
    int n0 = ( int )m.L.size();
    MgrNode * ret = im->Append( p, st );
    int nid = p->StepFileId();
    bool accepted = ret != 0;
    if( rq == 0 ) {
        if( !accepted ) { v.set( "auto-rejected", "Append of an instance without id returned NULL" ); return; }
        if( m.D.count( nid ) ) { v.set( "auto-id-not-fresh", fmt( "automatically assigned #%d is carried by a live instance", nid ) ); return; }
        if( nid <= m.seenMax ) { v.set( "auto-id-not-above-seen", fmt( "automatically assigned #%d, but #%d was seen since the manager was last emptied", nid, m.seenMax ) ); return; }
        if( d.cls == OC_AUTO ) si.out( nid == 0 ? O_AUTO_ID0 : O_AUTO_ACCEPTED );
        else if( d.cls == OC_DUP ) si.out( O_DUP_OF_ID0_AUTO );
        else si.out( O_REL_ID0_AUTO );
    } else if( dup ) {
        if( !accepted ) {
            // weaker reading: rejecting a duplicate id is acceptable as long as nothing changes
            if( nid != rq ) { v.set( "rejected-but-id-changed", fmt( "Append returned NULL but changed the id #%d -> #%d", rq, nid ) ); return; }
            si.out( d.cls == OC_DUP ? O_DUP_REJECTED : O_REL_REJECTED );
        } else {
            if( nid == rq ) { v.set( "two-live-same-id", fmt( "Append accepted a second live instance carrying #%d", rq ) ); return; }
            if( m.D.count( nid ) ) { v.set( "auto-id-not-fresh", fmt( "renumbered to #%d which is carried by a live instance", nid ) ); return; }
            if( nid <= m.seenMax ) { v.set( "auto-id-not-above-seen", fmt( "renumbered to #%d, but #%d was seen since the manager was last emptied", nid, m.seenMax ) ); return; }
            si.out( d.cls == OC_DUP ? O_DUP_RENUMBERED : O_REL_RENUMBERED );
        }
    } else {
        if( !accepted ) { v.set( "explicit-rejected", fmt( "Append of an instance with unused #%d returned NULL", rq ) ); return; }
        if( nid != rq ) { v.set( "explicit-id-changed", fmt( "Append changed the unused explicit id #%d to #%d", rq, nid ) ); return; }
        if( d.cls == OC_HIGH ) si.out( O_HIGH_ACCEPTED );
        else if( d.cls == OC_LOW ) si.out( m.deleted.count( rq ) ? O_LOW_REUSED_DELETED_ID : O_LOW_ACCEPTED );
        else si.out( O_REL_SAME_ID );
    }
    if( accepted ) {
        MEntry e;
        e.p = p; e.id = nid; e.type = type; e.state = ( int )st;
        m.L.push_back( e );
        m.D.put( nid, p );
        m.saw( nid );
        m.deleted.erase( nid );
        if( released_ix >= 0 ) m.released.erase( m.released.begin() + released_ix );
        if( im->InstanceCount() == n0 + 1 && im->GetMgrNode( n0 ) != ret ) {
            v.set( "return-not-last-node", "Append returned a node that is not the last one" );
            return;
        }
    } else if( released_ix < 0 ) {
        delete p;   // rejected new instance stays with the harness
    }
}

static void after_delete_model( Model & m, int i, StepInfo & si, bool bynode ) {
    m.deleted.insert( m.L[i].id );
    m.D.erase( m.L[i].id );
    m.L.erase( m.L.begin() + i );     // the instance itself has been deleted by ~MgrNode (documented in mgrnode.h)
    if( m.L.empty() ) {
        m.seenMax = -1;               // weaker reading: the manager counts as emptied however it became empty
        si.out( bynode ? O_DELN_EMPTIED : O_DELI_EMPTIED );
    } else {
        si.out( bynode ? O_DELN_REMOVED : O_DELI_REMOVED );
    }
}

// applies one operation to implementation and model; op-specific postconditions go to v
static void apply_op( World & w, const OpDef & d, Viol & v, StepInfo & si ) {
    InstMgr * im = w.im;
    Model & m = w.m;
    int cap0 = im->master->_bufsize;
    switch( d.cls ) {
        case OC_AUTO: {
            if( WANT_DESC ) si.desc = fmt( "Append(new %s, id 0 = automatic, newSE)", TNAME[d.type] );
            do_append( w, d, new_instance( d.type, 0 ), d.type, newSE, -1, v, si );
            break;
        }
        case OC_HIGH: {
            int id = std::max( std::max( im->MaxFileId(), m.seenMax ), 0 ) + 2;
            if( WANT_DESC ) si.desc = fmt( "Append(new %s, explicit unused #%d above every id, completeSE)", TNAME[d.type], id );
            do_append( w, d, new_instance( d.type, id ), d.type, completeSE, -1, v, si );
            break;
        }
        case OC_LOW: {
            int id = m.low_free();
            if( WANT_DESC ) si.desc = fmt( "Append(new %s, explicit unused #%d below the highest live id%s, completeSE)", TNAME[d.type], id, m.deleted.count( id ) ? " (id of a deleted instance)" : "" );
            do_append( w, d, new_instance( d.type, id ), d.type, completeSE, -1, v, si );
            break;
        }
        case OC_DUP: {
            int i = m.pos_index( d.pos );
            int id = m.L[i].id;
            if( WANT_DESC ) si.desc = fmt( "Append(new %s, #%d = id of the %s live instance, completeSE)", TNAME[d.type], id, PNAME[d.pos] );
            do_append( w, d, new_instance( d.type, id ), d.type, completeSE, -1, v, si );
            break;
        }
        case OC_SAME: {
            int i = m.pos_index( d.pos );
            if( WANT_DESC ) si.desc = fmt( "Append(the %s live instance again (#%d), incompleteSE)", PNAME[d.pos], m.L[i].id );
            im->Append( m.L[i].p, incompleteSE );   // NULL or the existing node are both acceptable; the model does not change
            si.out( O_SAME_UNCHANGED );
            break;
        }
        case OC_REL: {
            int ix = d.pos == P_FIRST ? 0 : ( int )m.released.size() - 1;
            MEntry e = m.released[ix];
            if( WANT_DESC ) si.desc = fmt( "Append(released %s #%d (%s id in the released pool), incompleteSE)", TNAME[e.type], e.id, d.pos == P_FIRST ? "lowest" : "highest" );
            do_append( w, d, e.p, e.type, incompleteSE, ix, v, si );
            if( !v.bad && m.index_of( e.p ) < 0 ) {
                // rejected: stays released, but Append may not have touched its id (checked above)
            }
            break;
        }
        case OC_DELN: {
            int i = m.pos_index( d.pos );
            if( WANT_DESC ) si.desc = fmt( "Delete(GetMgrNode(%d)) [%s, #%d]", i, PNAME[d.pos], m.L[i].id );
            im->Delete( im->GetMgrNode( i ) );
            after_delete_model( m, i, si, true );
            break;
        }
        case OC_DELI: {
            int i = m.pos_index( d.pos );
            if( WANT_DESC ) si.desc = fmt( "Delete(instance at index %d) [%s, #%d]", i, PNAME[d.pos], m.L[i].id );
            im->Delete( m.L[i].p );
            after_delete_model( m, i, si, false );
            break;
        }
        case OC_CS: {
            int i = m.pos_index( d.pos );
            if( WANT_DESC ) si.desc = fmt( "ChangeState(GetMgrNode(%d) [%s], %c)", i, PNAME[d.pos], STCH[d.st] );
            si.out( m.L[i].state == ( int )STATES[d.st] ? O_CS_SAME : O_CS_CHANGED );
            im->ChangeState( im->GetMgrNode( i ), STATES[d.st] );
            m.L[i].state = ( int )STATES[d.st];
            break;
        }
        case OC_CLEAR: {
            si.desc = "ClearInstances()";
            si.out( m.L.empty() ? O_CLEAR_EMPTY : O_CLEAR_RELEASED );
            im->ClearInstances();
            for( size_t i = 0; i < m.L.size(); i++ ) {   // instances go back to the harness, keeping their ids
                MEntry e = m.L[i];
                std::vector<MEntry>::iterator at = std::upper_bound( m.released.begin(), m.released.end(), e, rel_less );
                m.released.insert( at, e );
            }
            m.L.clear();
            m.D.clear();
            m.seenMax = -1;
            break;
        }
        case OC_DELALL: {
            si.desc = "DeleteInstances()";
            si.out( m.L.empty() ? O_DELALL_EMPTY : O_DELALL_DELETED );
            im->DeleteInstances();                        // deletes the instances whatever the ownership flag says
            for( size_t i = 0; i < m.L.size(); i++ ) m.deleted.insert( m.L[i].id );
            m.L.clear();
            m.D.clear();
            m.seenMax = -1;
            break;
        }
        case OC_NEXT: {
            si.desc = "NextFileId()";
            int id = im->NextFileId();
            si.out( O_NEXT );
            if( m.D.count( id ) ) { v.set( "auto-id-not-fresh", fmt( "NextFileId()=%d is carried by a live instance", id ) ); break; }
            if( id <= m.seenMax ) { v.set( "auto-id-not-above-seen", fmt( "NextFileId()=%d, but #%d was seen since the manager was last emptied", id, m.seenMax ) ); break; }
            if( im->MaxFileId() < id ) { v.set( "MaxFileId-below-handed-out", fmt( "MaxFileId()=%d after NextFileId()=%d", im->MaxFileId(), id ) ); break; }
            m.saw( id );
            break;
        }
    }
    if( !v.bad && im->master->_bufsize != cap0 ) si.out( O_ARRAY_GROWN );
}

// ---------------------------------------------------------------------------------- progress (crash attribution)
struct Progress {
    volatile int64_t item;
    volatile int op;       // index into OPS, -1 while replaying/evaluating the prefix
    volatile int step;     // step of the history being executed
    volatile int phase;    // 1 replay prefix, 2 operation, 3 queries, 4 teardown
    volatile int64_t done; // items completely finished
};
static Progress dummy_progress;
static Progress * PG = &dummy_progress;
static const char * PHASE[5] = { "?", "prefix", "operation", "queries", "destruction" };

// replays hist (op indices) on a fresh world without the full query comparison.  false = a step was
// not enabled or violated (cannot happen for histories produced by the explorer: harness error)
static bool replay_prefix( World & w, int kind, const unsigned char * hist, int len, std::string & why ) {
    world_init( w, kind );
    for( int i = 0; i < len; i++ ) {
        PG->step = i;
        const OpDef & d = OPS[hist[i]];
        if( !op_enabled( w.m, d ) ) { why = fmt( "step %d (%s) not enabled on replay", i, d.name ); return false; }
        Viol v;
        StepInfo si;
        apply_op( w, d, v, si );
        if( v.bad ) { why = fmt( "step %d (%s) violates on replay: %s", i, d.name, v.msg.c_str() ); return false; }
    }
    return true;
}

// ---------------------------------------------------------------------------------- explorer
#define MAXD 12
#define MAXCRASH 64
struct Item {
    unsigned char h[MAXD];
    H128 hash;
};

struct VRec {           // first violation of a key seen by a worker + number of cases
    std::string key, msg;
    int64_t item;
    int op;
    int64_t count;
};

static void put_bytes( std::string & o, const void * p, size_t n ) { o.append( ( const char * )p, n ); }
static void put_i64( std::string & o, int64_t x ) { put_bytes( o, &x, 8 ); }
static void put_str( std::string & o, const std::string & s ) { put_i64( o, ( int64_t )s.size() ); o += s; }

static bool write_all( int fd, const std::string & s ) {
    size_t off = 0;
    while( off < s.size() ) {
        ssize_t k = write( fd, s.data() + off, s.size() - off );
        if( k < 0 ) { if( errno == EINTR ) continue; return false; }
        off += k;
    }
    return true;
}

// record types on the worker pipe
enum { R_NEW = 1, R_VIOL = 2, R_HARNESS = 3, R_END = 4 };

struct SkipKey {
    int64_t item;
    int op;
    bool operator<( const SkipKey & o ) const { return item != o.item ? item < o.item : op < o.op; }
};

// shared between a worker and the explorer: progress (crash attribution) lives in Progress

// expands the frontier blocks w, w+nw, w+2nw, ... (block = 'block' consecutive items), beginning with
// its own block number 'start'.  Output is written in whole blocks (new
// states, violations, counters), so that after a crash the explorer can restart the worker at the
// first item of the unfinished block without losing or double counting anything.
static void worker( int fd, int kind, int depth, const std::vector<Item> & frontier, int w_ix, int nw, int64_t block, int64_t start,
                    const std::set<SkipKey> & skip, const HSet & visited ) {
    HSet local;
    std::vector<int> canon;
    std::string out;
    int64_t hi = ( int64_t )frontier.size();
    for( int64_t lb = start; ; lb++ ) {
        int64_t b0 = ( w_ix + lb * nw ) * block;
        if( b0 >= hi ) break;
        int64_t b1 = std::min<int64_t>( b0 + block, hi );
        int64_t transitions = 0;
        int64_t outcomes[O_N];
        memset( outcomes, 0, sizeof outcomes );
        std::map<std::string, VRec> viols;
        std::vector<std::string> vorder;
        out.clear();
        for( int64_t it = b0; it < b1; it++ ) {
            const Item & item = frontier[it];
            PG->item = it;
            bool first = true;
            char enabled[64];
            memset( enabled, 1, sizeof enabled );   // known after the first replay (depends on the model state only)
            for( size_t oi = 0; oi < OPS.size(); oi++ ) {
                SkipKey sk = { it, ( int )oi };
                bool skipped = skip.count( sk ) > 0;
                if( ( skipped || !enabled[oi] ) && !first ) continue;
                PG->op = -1;
                PG->phase = 1;
                alarm( 6 );    // a transition takes microseconds: one that does not return is ended by SIGALRM and reported like a crash (a hang)
                World w;
                std::string why;
                if( !replay_prefix( w, kind, item.h, depth, why ) ) {
                    out += ( char )R_HARNESS;
                    put_i64( out, it );
                    put_str( out, why );
                    break;
                }
                if( first ) {
                    // the state must look exactly as it did when it was discovered (by another process, from another replay)
                    first = false;
                    Viol v0;
                    canon.clear();
                    PG->phase = 3;
                    check_all( w, v0, &canon );
                    H128 h = hash_ints( canon );
                    if( v0.bad || h != item.hash ) {
                        out += ( char )R_HARNESS;
                        put_i64( out, it );
                        put_str( out, v0.bad ? "replayed state violates: " + v0.msg : std::string( "canonical form differs between two replays of the same history" ) );
                        break;
                    }
                }
                if( oi == 0 ) {
                    for( size_t q = 0; q < OPS.size(); q++ ) enabled[q] = op_enabled( w.m, OPS[q] ) ? 1 : 0;
                }
                const OpDef & d = OPS[oi];
                if( skipped || !op_enabled( w.m, d ) ) {
                    PG->phase = 4;
                    world_destroy( w );
                    continue;
                }
                PG->op = ( int )oi;
                PG->step = depth;
                PG->phase = 2;
                Viol v;
                StepInfo si;
                apply_op( w, d, v, si );
                transitions++;
                canon.clear();
                if( !v.bad ) {
                    PG->phase = 3;
                    check_all( w, v, &canon );
                }
                if( v.bad ) {
                    // the model has no meaning after a disagreement: the successor is not explored; the world is leaked
                    std::string key = op_class_key( d ) + "/" + v.cls;
                    std::map<std::string, VRec>::iterator f = viols.find( key );
                    if( f == viols.end() ) {
                        VRec r;
                        r.key = key; r.msg = v.msg; r.item = it; r.op = ( int )oi; r.count = 1;
                        viols[key] = r;
                        vorder.push_back( key );
                    } else {
                        f->second.count++;
                    }
                    continue;
                }
                for( int k = 0; k < si.noutcome; k++ ) outcomes[si.outcome[k]]++;
                {
                    int mx = w.im->MaxFileId(), ml = w.m.max_live();
                    if( ml >= 0 && mx > ml ) outcomes[O_MAX_ABOVE_LIVE]++;
                }
                H128 h = hash_ints( canon );
                PG->phase = 4;
                world_destroy( w );
                if( !visited.has( h ) && local.insert( h ) ) {
                    out += ( char )R_NEW;
                    put_i64( out, it );
                    out += ( char )oi;
                    put_bytes( out, &h, sizeof h );
                }
            }
        }
        for( size_t i = 0; i < vorder.size(); i++ ) {
            const VRec & r = viols[vorder[i]];
            out += ( char )R_VIOL;
            put_str( out, r.key );
            put_str( out, r.msg );
            put_i64( out, r.item );
            put_i64( out, r.op );
            put_i64( out, r.count );
        }
        out += ( char )R_END;
        put_i64( out, transitions );
        for( int i = 0; i < O_N; i++ ) put_i64( out, outcomes[i] );
        PG->phase = 0;
        if( !write_all( fd, out ) ) _exit( 3 );
        PG->done = lb + 1;
    }
}

struct Reader {
    const std::string & s;
    size_t p;
    Reader( const std::string & s_ ) : s( s_ ), p( 0 ) {}
    bool more() const { return p < s.size(); }
    int byte() { return ( unsigned char )s[p++]; }
    int64_t i64() { int64_t x; memcpy( &x, s.data() + p, 8 ); p += 8; return x; }
    std::string str() { int64_t n = i64(); std::string r = s.substr( p, n ); p += n; return r; }
    void bytes( void * d, size_t n ) { memcpy( d, s.data() + p, n ); p += n; }
};

static std::string json_str( const std::string & s ) {
    std::string o = "\"";
    for( size_t i = 0; i < s.size(); i++ ) {
        unsigned char c = s[i];
        if( c == '"' || c == '\\' ) { o += '\\'; o += c; }
        else if( c == '\n' ) o += "\\n";
        else if( c == '\t' ) o += "\\t";
        else if( c < 0x20 || c >= 0x7f ) o += fmt( "\\u%04x", c );
        else o += c;
    }
    return o + "\"";
}

static std::string ops_json( const unsigned char * h, int len, int extra ) {
    std::string o = "[";
    for( int i = 0; i < len; i++ ) { if( i ) o += ","; o += json_str( OPS[h[i]].name ); }
    if( extra >= 0 ) { if( len ) o += ","; o += json_str( OPS[extra].name ); }
    return o + "]";
}

static std::string read_file( const std::string & path, size_t maxn ) {
    std::string r;
    FILE * f = fopen( path.c_str(), "rb" );
    if( !f ) return r;
    char buf[4096];
    size_t k;
    while( ( k = fread( buf, 1, sizeof buf, f ) ) > 0 && r.size() < maxn ) r.append( buf, k );
    fclose( f );
    return r;
}

struct Totals {
    int64_t states, transitions;
    int64_t outcomes[O_N];
};

struct GlobalViol {
    std::string key, msg, kind, ops;
    int64_t count;
};

static int explore_kind( int kind, int maxdepth, int jobs, std::string & json, std::vector<GlobalViol> & gv, std::string & crashes_json,
                         std::vector<std::string> & harness ) {
    HSet visited;
    std::vector<Item> frontier, next;
    Totals tot;
    memset( &tot, 0, sizeof tot );
    {
        World w;
        world_init( w, kind );
        Viol v;
        std::vector<int> canon;
        check_all( w, v, &canon );
        if( v.bad ) {
            GlobalViol g;
            g.key = "fresh-manager/" + v.cls; g.msg = v.msg; g.kind = KINDS[kind].name; g.ops = "[]"; g.count = 1;
            gv.push_back( g );
        }
        Item it;
        memset( &it, 0, sizeof it );
        it.hash = hash_ints( canon );
        visited.insert( it.hash );
        frontier.push_back( it );
        world_destroy( w );
        tot.states = 1;
    }
    std::string levels = "[";
    std::string aborted;
    int64_t kind_crashes = 0;
    Progress * pg = ( Progress * )mmap( 0, sizeof( Progress ) * 256, PROT_READ | PROT_WRITE, MAP_SHARED | MAP_ANONYMOUS, -1, 0 );
    char errtmpl[200];
    snprintf( errtmpl, sizeof errtmpl, "%s/instmgr_mc.%d", access( "/dev/shm", W_OK ) == 0 ? "/dev/shm" : "/tmp", ( int )getpid() );
    for( int depth = 0; depth < maxdepth; depth++ ) {
        int64_t nitems = ( int64_t )frontier.size();
        if( nitems < 1 ) break;
        // small blocks dealt round-robin keep the workers balanced; the merge below is in block order, so the
        // result does not depend on the block size or on the number of workers
        int64_t block = std::max<int64_t>( 1, std::min<int64_t>( 256, nitems / ( ( int64_t )jobs * 8 ) ) );
        int64_t nblocks = ( nitems + block - 1 ) / block;
        int nw = ( int )std::min<int64_t>( jobs, nblocks );
        struct WState {
            pid_t pid; int fd; std::string buf; bool ended; std::set<SkipKey> skip; std::string errfile;
        };
        std::vector<WState> ws( nw );
        fflush( stdout );
        for( int k = 0; k < nw; k++ ) {
            ws[k].ended = false;
            ws[k].pid = 0;
            ws[k].fd = -1;
            ws[k].errfile = fmt( "%s.%d.err", errtmpl, k );
        }
        int64_t level_trans = 0, level_crashes = 0;
        // (re)start worker k at item 'start'
        struct Launcher {
            static void go( WState & s, int k, int nw, int64_t block, Progress * pg, int kind, int depth, const std::vector<Item> & fr, int64_t start, const HSet & vis ) {
                int pfd[2];
                if( pipe( pfd ) ) { perror( "pipe" ); exit( 2 ); }
                memset( ( void * )&pg[k], 0, sizeof( Progress ) );
                pg[k].item = -1;
                pg[k].done = start;
                pg[k].op = -1;
                pid_t pid = fork();
                if( pid < 0 ) { perror( "fork" ); exit( 2 ); }
                if( pid == 0 ) {
                    close( pfd[0] );
                    int efd = open( s.errfile.c_str(), O_WRONLY | O_CREAT | O_TRUNC, 0600 );
                    if( efd >= 0 ) { dup2( efd, 2 ); close( efd ); }
                    int nfd = open( "/dev/null", O_WRONLY );
                    if( nfd >= 0 ) { dup2( nfd, 1 ); close( nfd ); }
                    PG = &pg[k];
                    worker( pfd[1], kind, depth, fr, k, nw, block, start, s.skip, vis );
                    _exit( 0 );
                }
                close( pfd[1] );
                s.pid = pid;
                s.fd = pfd[0];
            }
        };
        for( int k = 0; k < nw; k++ ) Launcher::go( ws[k], k, nw, block, pg, kind, depth, frontier, 0, visited );
        int live = nw;
        while( live > 0 ) {
            std::vector<struct pollfd> pf;
            std::vector<int> who;
            for( int k = 0; k < nw; k++ ) if( ws[k].fd >= 0 ) {
                    struct pollfd p;
                    p.fd = ws[k].fd; p.events = POLLIN; p.revents = 0;
                    pf.push_back( p );
                    who.push_back( k );
                }
            if( pf.empty() ) break;
            int rc = poll( pf.data(), pf.size(), -1 );
            if( rc < 0 ) { if( errno == EINTR ) continue; perror( "poll" ); exit( 2 ); }
            for( size_t j = 0; j < pf.size(); j++ ) {
                if( !( pf[j].revents & ( POLLIN | POLLHUP | POLLERR ) ) ) continue;
                int k = who[j];
                char buf[1 << 16];
                ssize_t got = read( ws[k].fd, buf, sizeof buf );
                if( got > 0 ) { ws[k].buf.append( buf, got ); continue; }
                if( got < 0 && ( errno == EINTR || errno == EAGAIN ) ) continue;
                // EOF: the worker is gone
                close( ws[k].fd );
                ws[k].fd = -1;
                int status = 0;
                waitpid( ws[k].pid, &status, 0 );
                bool clean = WIFEXITED( status ) && WEXITSTATUS( status ) == 0;
                if( clean ) { live--; unlink( ws[k].errfile.c_str() ); continue; }
                // crashed: attribute to (item, op, phase) from the shared progress cell, skip that transition, restart
                int64_t citem = pg[k].item;
                int cop = pg[k].op, cphase = pg[k].phase, cstep = pg[k].step;
                std::string err = read_file( ws[k].errfile, 12000 );
                level_crashes++;
                if( ++kind_crashes > MAXCRASH ) {
                    // a tree in which nearly everything crashes: stop this kind, report it as a cap
                    aborted = fmt( "more than %d crashing transitions, exploration stopped at depth %d", MAXCRASH, depth + 1 );
                    for( int q = 0; q < nw; q++ ) if( ws[q].fd >= 0 ) {
                            kill( ws[q].pid, SIGKILL );
                            waitpid( ws[q].pid, 0, 0 );
                            close( ws[q].fd );
                            ws[q].fd = -1;
                        }
                    live = 0;
                    break;
                }
                if( !crashes_json.empty() ) crashes_json += ",";
                crashes_json += fmt( "{\"kind\":%s,\"ops\":%s,\"phase\":%s,\"step\":%d,\"status\":%d,\"signal\":%d,\"stderr\":", json_str( KINDS[kind].name ).c_str(),
                                     ops_json( frontier[citem].h, depth, cop ).c_str(), json_str( PHASE[cphase >= 0 && cphase <= 4 ? cphase : 0] ).c_str(), cstep,
                                     WIFEXITED( status ) ? WEXITSTATUS( status ) : -1, WIFSIGNALED( status ) ? WTERMSIG( status ) : 0 );
                crashes_json += json_str( err ) + "}";
                if( cop < 0 ) {
                    harness.push_back( fmt( "kind %s: worker died while replaying the prefix of frontier item %lld (phase %s)", KINDS[kind].name, ( long long )citem, PHASE[cphase >= 0 && cphase <= 4 ? cphase : 0] ) );
                    live--;
                    continue;
                }
                SkipKey sk = { citem, cop };
                if( ws[k].skip.count( sk ) ) {
                    harness.push_back( "worker crashed twice at the same transition although it was skipped" );
                    live--;
                    continue;
                }
                ws[k].skip.insert( sk );
                level_trans++;   // the crashed transition was executed
                // output is written in whole blocks: restart at the first item of the unfinished block
                Launcher::go( ws[k], k, nw, block, pg, kind, depth, frontier, pg[k].done, visited );
            }
        }
        // merge in deterministic order = frontier order: block g was written by worker g % nw as its (g / nw)-th block
        next.clear();
        int64_t level_new = 0;
        std::vector<size_t> cursor( nw, 0 );
        for( int64_t g = 0; g < nblocks && aborted.empty(); g++ ) {
            int k = ( int )( g % nw );
            Reader r( ws[k].buf );
            r.p = cursor[k];
            bool block_end = false;
            if( !r.more() ) {
                harness.push_back( fmt( "kind %s depth %d: output of block %lld is missing", KINDS[kind].name, depth + 1, ( long long )g ) );
                break;
            }
            while( r.more() && !block_end ) {
                int t = r.byte();
                if( t == R_NEW ) {
                    int64_t it = r.i64();
                    int op = r.byte();
                    H128 h;
                    r.bytes( &h, sizeof h );
                    if( visited.insert( h ) ) {
                        Item ni = frontier[it];
                        ni.h[depth] = ( unsigned char )op;
                        ni.hash = h;
                        next.push_back( ni );
                        level_new++;
                    }
                } else if( t == R_VIOL ) {
                    GlobalViol g;
                    g.key = r.str();
                    g.msg = r.str();
                    int64_t it = r.i64();
                    int op = ( int )r.i64();
                    g.count = r.i64();
                    g.kind = KINDS[kind].name;
                    g.ops = ops_json( frontier[it].h, depth, op );
                    bool merged = false;
                    for( size_t q = 0; q < gv.size(); q++ ) if( gv[q].key == g.key ) { gv[q].count += g.count; merged = true; break; }
                    if( !merged ) gv.push_back( g );
                } else if( t == R_HARNESS ) {
                    int64_t it = r.i64();
                    std::string why = r.str();
                    if( harness.size() < 20 ) harness.push_back( fmt( "kind %s history %s: %s", KINDS[kind].name, ops_json( frontier[it].h, depth, -1 ).c_str(), why.c_str() ) );
                } else if( t == R_END ) {
                    level_trans += r.i64();
                    for( int i = 0; i < O_N; i++ ) tot.outcomes[i] += r.i64();
                    block_end = true;
                } else {
                    harness.push_back( "corrupt worker stream" );
                    g = nblocks;
                    break;
                }
            }
            cursor[k] = r.p;
        }
        for( int k = 0; k < nw; k++ ) {
            unlink( ws[k].errfile.c_str() );
        }
        tot.transitions += level_trans;
        tot.states += level_new;
        if( depth ) levels += ",";
        levels += fmt( "{\"depth\":%d,\"expanded\":%lld,\"transitions\":%lld,\"new_states\":%lld,\"crashes\":%lld}", depth + 1, ( long long )nitems,
                       ( long long )level_trans, ( long long )level_new, ( long long )level_crashes );
        fprintf( stderr, "[instmgr_mc] kind %s depth %d: expanded %lld, transitions %lld, new states %lld\n", KINDS[kind].name, depth + 1,
                 ( long long )nitems, ( long long )level_trans, ( long long )level_new );
        frontier.swap( next );
        if( !aborted.empty() ) break;
    }
    munmap( pg, sizeof( Progress ) * 256 );
    levels += "]";
    json += fmt( "{\"kind\":%s,\"states\":%lld,\"transitions\":%lld,\"levels\":", json_str( KINDS[kind].name ).c_str(),
                 ( long long )tot.states, ( long long )tot.transitions );
    json += levels + ",\"outcomes\":{";
    for( int i = 0; i < O_N; i++ ) json += fmt( "%s%s:%lld", i ? "," : "", json_str( ONAME[i] ).c_str(), ( long long )tot.outcomes[i] );
    json += "}";
    if( !aborted.empty() ) json += ",\"aborted\":" + json_str( aborted );
    json += "}";
    return 0;
}

// ---------------------------------------------------------------------------------- single replay
static std::string observed_summary( World & w ) {
    InstMgr * im = w.im;
    std::string s = fmt( "count=%d max=%d cap=%d [", im->InstanceCount(), im->MaxFileId(), im->master->_bufsize );
    int n = im->InstanceCount();
    for( int i = 0; i < n && i < 32; i++ ) {
        MgrNode * node = im->GetMgrNode( i );
        if( !node ) { s += " NULL"; continue; }
        AI * p = node->GetApplication_instance();
        int mi = w.m.index_of( p );
        // only instances the model knows to be alive are dereferenced
        if( mi >= 0 ) s += fmt( " #%d:%c:%c@%d", p->StepFileId(), TCH[w.m.L[mi].type], stch( node->CurrState() ), node->ArrayIndex() );
        else s += fmt( " (not-live):%c@%d", stch( node->CurrState() ), node->ArrayIndex() );
    }
    s += " ] map{";
    for( std::map<int, MgrNode *>::iterator it = im->sortedMaster->begin(); it != im->sortedMaster->end(); ++it ) {
        int at = -2;
        for( int i = 0; i < n; i++ ) if( im->GetMgrNode( i ) == it->second ) at = i;
        s += fmt( " %d->%d", it->first, at );
    }
    return s + " }";
}

static std::string expected_summary( const Model & m ) {
    std::string s = fmt( "count=%d max>=%d [", ( int )m.L.size(), m.max_live() );
    for( size_t i = 0; i < m.L.size(); i++ ) s += fmt( " #%d:%c:%c@%d", m.L[i].id, TCH[m.L[i].type], stch( m.L[i].state ), ( int )i );
    s += " ] released[";
    for( size_t i = 0; i < m.released.size(); i++ ) s += fmt( " #%d:%c", m.released[i].id, TCH[m.released[i].type] );
    return s + " ]";
}

static int do_replay( int kind, const std::vector<int> & ops ) {
    WANT_DESC = true;
    World w;
    world_init( w, kind );
    printf( "{\"step\":0,\"op\":\"new InstMgr\",\"kind\":%s}\n", json_str( KINDS[kind].name ).c_str() );
    for( size_t i = 0; i < ops.size(); i++ ) {
        const OpDef & d = OPS[ops[i]];
        if( !op_enabled( w.m, d ) ) {
            printf( "{\"step\":%d,\"op\":%s,\"error\":\"operation not enabled in this state\"}\n", ( int )i + 1, json_str( d.name ).c_str() );
            fflush( stdout );
            return 2;
        }
        Viol v;
        StepInfo si;
        printf( "{\"step\":%d,\"op\":%s,", ( int )i + 1, json_str( d.name ).c_str() );
        fflush( stdout );
        alarm( 6 );
        apply_op( w, d, v, si );
        printf( "\"desc\":%s,", json_str( si.desc ).c_str() );
        fflush( stdout );
        std::vector<int> canon;
        if( !v.bad ) check_all( w, v, &canon );
        printf( "\"expected\":%s,\"observed\":%s", json_str( expected_summary( w.m ) ).c_str(), json_str( observed_summary( w ) ).c_str() );
        if( v.bad ) {
            printf( ",\"violation\":{\"key\":%s,\"what\":%s}}\n", json_str( op_class_key( d ) + "/" + v.cls ).c_str(), json_str( v.msg ).c_str() );
            fflush( stdout );
            _exit( 1 );   // the world is inconsistent: no destructors
        }
        H128 h = hash_ints( canon );
        printf( ",\"canon\":\"%016llx%016llx\"}\n", ( unsigned long long )h.a, ( unsigned long long )h.b );
        fflush( stdout );
    }
    printf( "{\"step\":%d,\"op\":\"delete InstMgr\"", ( int )ops.size() + 1 );
    fflush( stdout );
    world_destroy( w );
    printf( ",\"ok\":true}\n" );
    fflush( stdout );
    return 0;
}

static std::vector<std::string> split( const std::string & s, char c ) {
    std::vector<std::string> r;
    std::string cur;
    for( size_t i = 0; i < s.size(); i++ ) {
        if( s[i] == c ) { if( !cur.empty() ) r.push_back( cur ); cur.clear(); }
        else cur += s[i];
    }
    if( !cur.empty() ) r.push_back( cur );
    return r;
}

int main( int argc, char ** argv ) {
    build_ops();
    Registry * reg = new Registry( HeaderSchemaInit );   // sets the global entity descriptors of the header schema
    ( void )reg;
    if( !header_section_schemae_file_description || !header_section_schemae_file_schema ) {
        fprintf( stderr, "header schema not initialised\n" );
        return 2;
    }
    std::string cmd = argc > 1 ? argv[1] : "";
    if( cmd == "ops" ) {
        for( size_t i = 0; i < OPS.size(); i++ ) printf( "%s %s\n", OPS[i].name, op_class_key( OPS[i] ).c_str() );
        return 0;
    }
    if( cmd == "replay" && argc >= 3 ) {
        int kind = kind_by_name( argv[2] );
        if( kind < 0 ) { fprintf( stderr, "unknown kind\n" ); return 2; }
        std::vector<int> ops;
        std::vector<std::string> names = split( argc > 3 ? argv[3] : "", ',' );
        for( size_t i = 0; i < names.size(); i++ ) {
            int o = op_by_name( names[i] );
            if( o < 0 ) { fprintf( stderr, "unknown op %s\n", names[i].c_str() ); return 2; }
            ops.push_back( o );
        }
        return do_replay( kind, ops );
    }
    if( cmd == "explore" && argc >= 5 ) {
        int depth = atoi( argv[2] ), jobs = atoi( argv[3] );
        if( depth < 1 || depth > MAXD || jobs < 1 || jobs > 256 ) { fprintf( stderr, "bad depth/jobs\n" ); return 2; }
        std::vector<std::string> kinds = split( argv[4], ',' );
        std::string kjson, crashes;
        std::vector<GlobalViol> gv;
        std::vector<std::string> harness;
        for( size_t i = 0; i < kinds.size(); i++ ) {
            int kind = kind_by_name( kinds[i] );
            if( kind < 0 ) { fprintf( stderr, "unknown kind %s\n", kinds[i].c_str() ); return 2; }
            if( i ) kjson += ",";
            explore_kind( kind, depth, jobs, kjson, gv, crashes, harness );
        }
        std::string out = fmt( "{\"depth\":%d,\"alphabet\":%d,\"kinds\":[", depth, ( int )OPS.size() ) + kjson + "],\"violations\":[";
        for( size_t i = 0; i < gv.size(); i++ ) {
            if( i ) out += ",";
            out += "{\"key\":" + json_str( gv[i].key ) + ",\"what\":" + json_str( gv[i].msg ) + ",\"kind\":" + json_str( gv[i].kind ) + ",\"ops\":" + gv[i].ops +
                   fmt( ",\"count\":%lld}", ( long long )gv[i].count );
        }
        out += "],\"crashes\":[" + crashes + "],\"harness_errors\":[";
        for( size_t i = 0; i < harness.size(); i++ ) { if( i ) out += ","; out += json_str( harness[i] ); }
        out += "]}\n";
        fputs( out.c_str(), stdout );
        fflush( stdout );
        _exit( 0 );
    }
    fprintf( stderr, "usage: instmgr_mc explore DEPTH JOBS KINDS | replay KIND OPS | ops\n" );
    return 2;
}
