// Attribute seam: the narrowest public seam that reaches the literal scanners.
//   S <path>            read a support exchange file into the instance manager (targets of references)
//   E <ENTITY> <idx>    select entity and attribute index for the following commands
//   R <hex> [strict]    fresh instance; STEPattribute::STEPread on the bytes; answer:
//                       "sev <n> null <0|1> pos <n> next <hex|-> val <kind> <hex>"  then (if not null) "out <hex>" = STEPwrite text
//   R2 <hex1> <hex2>    read <hex1>, then <hex2> into the SAME attribute object; answers like R for the second read
//   B <hex>...          batch: several hex inputs on one line, one answer line each (no "out")
//   WI <long>           set INTEGER value directly, STEPwrite  -> "out <hex>"
//   WR <hexfloat>       set REAL/NUMBER value directly, STEPwrite
//   quit
#include "drv_common.h"
#include "cleditor/STEPfile.h"
#include "clstepcore/instmgr.h"
#include "clstepcore/STEPaggregate.h"
#include "clstepcore/sdaiSelect.h"
#include <math.h>

static Registry * reg = 0;
static InstMgr * im = 0;
static std::string curEnt;
static int curIdx = 0;

static SDAI_Application_instance * fresh() {
    SDAI_Application_instance * se = reg->ObjCreate( curEnt.c_str() );
    if( !se || se == ENTITY_NULL ) {
        return 0;
    }
    return se;
}

static void report_value( STEPattribute * a ) {
    char buf[128];
    std::string v;
    const char * kind = "other";
    switch( a->NonRefType() ) {
        case INTEGER_TYPE:
            kind = "int";
            snprintf( buf, sizeof buf, "%ld", *( a->ptr.i ) );
            v = buf;
            break;
        case REAL_TYPE:
        case NUMBER_TYPE:
            kind = "real";
            snprintf( buf, sizeof buf, "%a", *( a->ptr.r ) );
            v = buf;
            break;
        case STRING_TYPE:
            kind = "str";
            v = a->ptr.S->c_str();
            break;
        case BINARY_TYPE:
            kind = "bin";
            v = a->ptr.b->c_str();
            break;
        case ENUM_TYPE:
        case BOOLEAN_TYPE:
        case LOGICAL_TYPE:
            kind = "enum";
            snprintf( buf, sizeof buf, "%d:", a->ptr.e->asInt() );
            v = buf;
            if( !a->ptr.e->is_null() ) {
                v += a->ptr.e->element_at( a->ptr.e->asInt() );
            }
            break;
        case ENTITY_TYPE:
            kind = "ref";
            if( *( a->ptr.c ) && *( a->ptr.c ) != S_ENTITY_NULL ) {
                snprintf( buf, sizeof buf, "%d", ( *( a->ptr.c ) )->StepFileId() );
                v = buf;
            } else {
                v = "null";
            }
            break;
        default:
            v = a->asStr();
            break;
    }
    fprintf( g_out, " val %s %s", kind, hexenc( v ).c_str() );
}

static void do_read( const std::string & bytes, bool strict, bool withOut, const std::string * first = 0 ) {
    SDAI_Application_instance * se = fresh();
    if( !se ) {
        fputs( "ERR noentity\n", g_out );
        return;
    }
    if( curIdx >= se->attributes.list_length() ) {
        fputs( "ERR noattr\n", g_out );
        return;
    }
    STEPattribute * a = &se->attributes[curIdx];
    if( first ) {
        // the attribute object has been read into before (R2): what it then holds must not show in the result of the next read
        std::istringstream in1( *first );
        a->STEPread( in1, im, 0, 0, strict );
    }
    std::istringstream in( bytes );
    Severity s = a->STEPread( in, im, 0, 0, strict );
    long pos = -1;
    std::string next = "-";
    in.clear();
    pos = ( long ) in.tellg();
    if( pos >= 0 && ( size_t ) pos < bytes.size() ) {
        next = hexenc( bytes.substr( pos, 1 ) );
    } else if( pos < 0 ) {
        pos = bytes.size();
    }
    fprintf( g_out, "sev %d null %d pos %ld next %s", ( int ) s, a->is_null() ? 1 : 0, pos, next.c_str() );
    report_value( a );
    fputs( "\n", g_out );
    if( withOut ) {
        std::ostringstream os;
        a->STEPwrite( os );
        fprintf( g_out, "out %s\n", hexenc( os.str() ).c_str() );
    }
    // the instance is leaked on purpose (destructors of half-read instances are not the subject)
}

int main( int argc, char ** argv ) {
    SchemaInitFn init = drv_load( argc, argv );
    reg = new Registry( init );
    im = new InstMgr();
    fputs( "ready\n", g_out );
    done();
    std::string line;
    while( std::getline( std::cin, line ) ) {
        drv_logreset();
        std::istringstream ls( line );
        std::string cmd;
        ls >> cmd;
        if( cmd == "quit" ) {
            break;
        } else if( cmd == "S" ) {
            std::string p;
            ls >> p;
            STEPfile * sf = new STEPfile( *reg, *im, "", false );
            Severity s = sf->ReadExchangeFile( p );
            fprintf( g_out, "sev %d n %d\n", ( int ) s, im->InstanceCount() );
        } else if( cmd == "E" ) {
            ls >> curEnt >> curIdx;
            SDAI_Application_instance * se = fresh();
            if( !se ) {
                fputs( "ERR noentity\n", g_out );
            } else {
                fprintf( g_out, "ok attrs %d type %d\n", se->attributes.list_length(),
                         curIdx < se->attributes.list_length() ? ( int ) se->attributes[curIdx].NonRefType() : -1 );
            }
        } else if( cmd == "R" ) {
            std::string h, st;
            ls >> h >> st;
            do_read( hexdec( h ), st == "strict", true );
        } else if( cmd == "R2" ) {
            std::string h1, h2;
            ls >> h1 >> h2;
            std::string f = hexdec( h1 );
            do_read( hexdec( h2 ), false, true, &f );
        } else if( cmd == "B" ) {
            std::string h;
            int k = 0;
            while( ls >> h ) {
                do_read( hexdec( h == "-" ? "" : h ), false, false );
                if( ( ++k & 31 ) == 0 ) {
                    fflush( g_out );    // the harness counts the answers it has got to locate an input that hangs or crashes
                }
            }
        } else if( cmd == "WI" || cmd == "WR" ) {
            SDAI_Application_instance * se = fresh();
            STEPattribute * a = se ? &se->attributes[curIdx] : 0;
            std::string v;
            ls >> v;
            if( !a ) {
                fputs( "ERR noentity\n", g_out );
            } else {
                if( cmd == "WI" ) {
                    *( a->ptr.i ) = strtol( v.c_str(), 0, 10 );
                } else {
                    *( a->ptr.r ) = strtod( v.c_str(), 0 );
                }
                std::ostringstream os;
                a->STEPwrite( os );
                fprintf( g_out, "out %s null %d\n", hexenc( os.str() ).c_str(), a->is_null() ? 1 : 0 );
            }
        } else {
            fputs( "ERR unknown\n", g_out );
        }
        done();
    }
    fflush( g_out );
    _exit( 0 );
}
