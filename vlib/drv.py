"""Python side of the C++ drivers: one long-lived process, commands on stdin, answers on fd 3."""
import os, subprocess, tempfile, select, time, signal, shutil
from . import common, build


def scratch_dir(tag='w'):
    base = '/dev/shm' if os.path.isdir('/dev/shm') and os.access('/dev/shm', os.W_OK) else os.path.join(common.BUILD, 'tmp')
    os.makedirs(base, exist_ok=True)
    return tempfile.mkdtemp(prefix='verif-%s-' % tag, dir=base)


class Crash(Exception):
    """Driver process died (or hung) while executing a command."""

    def __init__(self, cmd, rc, log, hang=False):
        Exception.__init__(self, 'driver died rc=%s on %r' % (rc, cmd[:80]))
        self.cmd, self.rc, self.log, self.hang = cmd, rc, log, hang
        self.answered = 0           # answer lines received before the process died / the time ran out

    def key(self):
        """(class, site) for the finding key."""
        if self.hang:
            return ('hang', 'timeout')
        k = common.sanitizer_key(self.log)
        if k:
            return k
        if self.rc is not None and self.rc < 0:
            try:
                name = signal.Signals(-self.rc).name
            except ValueError:
                name = 'SIG%d' % -self.rc
            site = 'unknown'
            if b'Assertion' in self.log:
                import re
                m = re.search(rb'([\w./-]+):(\d+): [^\n]*Assertion', self.log)
                if m:
                    site = 'assert@' + os.path.basename(m.group(1).decode()) + ':' + m.group(2).decode()
            if b'terminate called' in self.log:
                site = 'terminate:' + self.log.split(b'terminate called')[1][:80].decode('latin1').strip().replace('\n', ' ')
            return (name, site)
        return ('exit%s' % self.rc, 'unknown')


class Driver:
    def __init__(self, name, lib=None, variant='plain', timeout=20, lazy=False, args=()):
        self.exe = build.driver(name, variant, lazy=lazy)
        self.lib = lib
        self.variant = variant
        self.timeout = timeout
        self.args = list(args)
        self.p = None
        self.dir = scratch_dir(name)
        self.log = os.path.join(self.dir, 'log')
        self.ncmd = 0

    def start(self):
        r, w = os.pipe()
        env = dict(common.BASE_ENV)
        env.update(common.ASAN_ENV)
        so = self.lib.so if self.lib is not None else '-'

        def pre():
            os.dup2(w, 3)
            # a driver must not outlive the check that started it (a check killed while a seeded change makes the driver spin would
            # leave sixteen busy processes behind): PR_SET_PDEATHSIG = 1, SIGKILL
            try:
                import ctypes
                ctypes.CDLL(None).prctl(1, 9)
            except Exception:
                pass
        self.p = subprocess.Popen([self.exe, so, self.log] + self.args, stdin=subprocess.PIPE, stdout=subprocess.DEVNULL,
                                  stderr=subprocess.DEVNULL, env=env, preexec_fn=pre, close_fds=False, cwd=self.dir)
        os.close(w)
        self.r = os.fdopen(r, 'rb', buffering=0)
        self.buf = b''
        self._read_answer('start')

    def _readlog(self):
        try:
            with open(self.log, 'rb') as f:
                return f.read()[-200000:]
        except OSError:
            return b''

    def _read_answer(self, cmd, timeout=None):
        deadline = time.time() + (timeout or self.timeout)
        lines = []
        while True:
            nl = self.buf.find(b'\n')
            if nl >= 0:
                line = self.buf[:nl]
                self.buf = self.buf[nl + 1:]
                if line == b'.':
                    return lines
                lines.append(line)
                continue
            left = deadline - time.time()
            if left <= 0:
                self.kill()
                e = Crash(cmd, None, self._readlog(), hang=True)
                e.answered = len(lines) + self.buf.count(b'\n')
                raise e
            rl, _, _ = select.select([self.r], [], [], left)
            if not rl:
                continue
            chunk = os.read(self.r.fileno(), 1 << 16)
            if not chunk:
                rc = self.p.wait()
                self.p = None
                e = Crash(cmd, rc, self._readlog())
                e.answered = len(lines) + self.buf.count(b'\n')
                raise e
            self.buf += chunk

    # What a driver remembers between commands: commands that start a fresh session ('reset'), commands whose last occurrence stays in force
    # ('sticky').  Needed for one thing only: a process killed from OUTSIDE (SIGKILL - a program never sends that to itself; here it is the
    # kernel's OOM killer when other jobs fill the machine) is restarted, the session replayed, and the command repeated once.
    SESSION = {'p21drv': {'reset': ('new',)}, 'lazydrv': {'reset': ('open',)}, 'cxdrv': {'reset': ('C',)}, 'dictdump': {'reset': ('entities', 'types', 'instance')},
               'attrdrv': {'sticky': ('S', 'E'), 'reset': ('B',)}}

    def _remember(self, line):
        conf = self.SESSION.get(os.path.basename(self.exe).split('-')[0])
        if conf is None:
            self.hist = None
            return
        if getattr(self, 'hist', None) is None:
            self.hist = []
        w = line.split(' ', 1)[0]
        if w in conf.get('reset', ()):
            self.hist = [h for h in self.hist if h.split(' ', 1)[0] in conf.get('sticky', ())]
        if w in conf.get('sticky', ()):
            self.hist = [h for h in self.hist if h.split(' ', 1)[0] != w]
        self.hist.append(line)
        if len(self.hist) > 400:
            self.hist = None        # too long to replay: an outside kill is then reported like any other death

    def cmd(self, line, timeout=None, _retry=True):
        if self.p is None:
            self.start()
            if getattr(self, 'hist', None):
                # a new process after kill()/recycle: commands whose effect stays in force (attrdrv: the support population 'S', the entity 'E')
                # are issued again, everything else the callers re-establish themselves
                conf = self.SESSION.get(os.path.basename(self.exe).split('-')[0]) or {}
                sticky = [h for h in self.hist if h.split(' ', 1)[0] in conf.get('sticky', ()) and h != line]
                self.hist = []
                for h in sticky:
                    self.cmd(h, timeout=max(timeout or 0, self.timeout), _retry=False)
        self.ncmd += 1
        self._remember(line)
        try:
            try:
                self.p.stdin.write(line.encode('latin1') + b'\n')
                self.p.stdin.flush()
            except (BrokenPipeError, OSError):
                rc = self.p.wait()
                self.p = None
                raise Crash(line, rc, self._readlog())
            return self._read_answer(line, timeout)
        except Crash as e:
            if _retry and e.rc == -9 and not e.hang and getattr(self, 'hist', None) and common.sanitizer_key(e.log) is None:
                hist = list(self.hist)
                self.kill()
                self.start()
                self.hist = []
                for h in hist[:-1]:
                    self.cmd(h, timeout=max(timeout or 0, self.timeout), _retry=False)
                self.outside_kills = getattr(self, 'outside_kills', 0) + 1
                return self.cmd(line, timeout=timeout, _retry=False)
            raise

    def rss_kb(self):
        try:
            with open('/proc/%d/statm' % self.p.pid) as f:
                return int(f.read().split()[1]) * 4
        except Exception:
            return 0

    def recycle_if_big(self, limit_kb=1200000):
        """restart the driver process when it has grown (the libraries leak by design, and ASan's quarantine adds to it):
        sixteen of them once exhausted the machine and the kernel's OOM killer produced spurious SIGKILLs"""
        if self.p is not None and self.rss_kb() > limit_kb:
            self.close_proc()
            return True
        return False

    def close_proc(self):
        if self.p is not None:
            try:
                self.p.stdin.write(b'quit\n')
                self.p.stdin.flush()
                self.p.wait(timeout=5)
            except Exception:
                self.kill()
            self.p = None
        try:
            self.r.close()
        except Exception:
            pass

    def kill(self):
        if self.p is not None:
            try:
                self.p.kill()
                self.p.wait()
            except Exception:
                pass
            self.p = None
        try:
            self.r.close()
        except Exception:
            pass

    def close(self):
        if self.p is not None:
            try:
                self.p.stdin.write(b'quit\n')
                self.p.stdin.flush()
                self.p.wait(timeout=5)
            except Exception:
                self.kill()
            self.p = None
        try:
            self.r.close()
        except Exception:
            pass
        shutil.rmtree(self.dir, ignore_errors=True)

    def __enter__(self):
        return self

    def __exit__(self, *a):
        self.close()


def parse_dump(lines):
    """-> list of (id, state, ENTITY, text_bytes)"""
    out = []
    for l in lines:
        if l.startswith(b'I '):
            f = l.split(b' ')
            out.append((int(f[1]), f[2].decode(), f[3].decode(), bytes.fromhex(f[4].decode()) if len(f) > 4 else b''))
    return out


def kv(line):
    f = line.decode().split()
    return {f[i]: int(f[i + 1]) for i in range(0, len(f) - 1, 2)}
