#!/usr/bin/python3
"""MANIFEST.setup_cmd: build everything the quick tier needs from /repo's working tree, offline."""
import sys, os, time
sys.path.insert(0, '/verif')
from vlib import build, common, smodel


def main():
    t0 = time.time()
    for v in ('plain', 'san'):
        build.ensure(v)
        print('built variant', v, '%.0fs' % (time.time() - t0), flush=True)
    build.ensure_scanner()
    print('built scanner', '%.0fs' % (time.time() - t0), flush=True)
    drivers = [('p21drv', 'plain', False), ('p21drv', 'san', False), ('attrdrv', 'plain', False), ('attrdrv', 'san', False), ('dictdump', 'plain', False),
               ('lazydrv', 'plain', True), ('lazydrv', 'san', True), ('cxdrv', 'san', False), ('instmgr_mc', 'san', False)]
    for name, v, lazy in drivers:
        if os.path.exists('/verif/drivers/%s.cc' % name):
            build.driver(name, v, lazy=lazy)
    build.shim('heapshift')
    print('built drivers', '%.0fs' % (time.time() - t0), flush=True)
    # schema libraries used by the quick tier (cached by content; rebuilt when generator/headers change).  A library that does not build is
    # reported by the check that needs it, not here.
    sys.path.insert(0, '/verif/checks')
    libs = [(smodel.family_K('fk', pairs='core').express(), ('plain', 'san'), True), (smodel.family_I('fi').express(), ('plain', 'san'), True)]
    try:
        import c10, c11, c02, c08
        libs.append((c10.SCHEMA, ('plain', 'san'), True))
        libs.append((c11.SCHEMA, ('san',), True))
        for fam in c02.programs('quick'):
            libs.append((fam.express(), ('plain',), True))
            for vname, text in c02.variants(fam):
                libs.append((text, ('plain',), True))
        for base, chunk, text in c08.pack(list(c08.graphs('quick'))):
            libs.append((text, ('san',), False))
    except Exception as e:
        print('WARNING: could not enumerate the check schemas:', e)
    for text, variants, tools in libs:
        for v in variants:
            try:
                build.schema_lib(text, v, tools=tools)
            except build.GenError as e:
                print('WARNING: a schema library does not build (%s) - the check that needs it will report it' % e)
    print('built schema libraries', '%.0fs' % (time.time() - t0), flush=True)


if __name__ == '__main__':
    main()
