#!/usr/bin/python3
"""C02 - generated C++ dictionary and classes mirror the EXPRESS schema exactly.
Program enumeration over model-driven families: exp2cxx -> compile -> the registered dictionary is read
back through the public descriptor getters (dictdump) and compared with the expected dictionary computed
from the abstract schema model; fresh instances expose the Part 21 attribute order; generated accessors
read back what their mutators stored (a generated C++ test per family)."""
import sys, os, json, re, subprocess, shutil
sys.path.insert(0, '/verif')
from vlib import common, build, smodel, drv, gfam

PID = 'C02'
PRIM = {'INTEGER': 1, 'REAL': 2, 'BOOLEAN': 4, 'LOGICAL': 8, 'STRING': 16, 'BINARY': 32, 'NUMBER': 1024}
UNB = 2147483647


def type_text(t):
    """how an attribute's type is named by the dictionary: named types by name, simple types in lower case, aggregates as EXPRESS text"""
    if isinstance(t, smodel.Simple):
        return t.name.lower()       # an attribute typed REAL (6) shares the descriptor of REAL: the precision of a bare built-in type is not judged
    return t.express().lower() if not isinstance(t, smodel.Named) else t.name.lower()


def elem_text(fam, t):
    """the element type as AggrElemTypeDescriptor() names it: that function looks through renamings (NonRefTypeDescriptor), so LIST OF hue with
    TYPE hue = color (an enumeration, select or aggregate) is answered with color; an unnamed inner aggregate has no name"""
    if isinstance(t, smodel.Aggr):
        return ''
    while isinstance(t, smodel.Named):
        td = fam.tmap()[0].get(t.name)
        if td is not None and isinstance(td.body, smodel.Named) and fam.resolve(td.body)[0] in ('enum', 'select', 'aggr'):
            t = td.body
        else:
            break
    return type_text(t)


def aggr_struct(fam, t):
    """the structure dictdump prints for an aggregate type (S lines, struct=)"""
    if isinstance(t, smodel.Named):
        td = fam.tmap()[0].get(t.name)
        if td is not None and isinstance(td.body, smodel.Aggr):
            return aggr_struct(fam, td.body)
        if td is not None and isinstance(td.body, smodel.Named) and fam.resolve(td.body)[0] == 'aggr':
            return aggr_struct(fam, td.body)          # TYPE l2 = l: the structure of the aggregate it renames
        return '/' + elem_text(fam, t)
    if isinstance(t, smodel.Aggr):
        return '%s[%s:%s]u%do%d' % (t.kind.lower(), t.lo if t.lo is not None else 0, t.hi if t.hi is not None else UNB, 1 if t.unique else 0,
                                    1 if (t.optional and t.kind == 'ARRAY') else 0) + aggr_struct(fam, t.elem)
    return '/' + t.name.lower()


def expected(fam):
    ents = {}
    for e in fam.entities:
        attrs = [(a.name, 'explicit', 1 if a.optional else 0, type_text(a.type)) for a in e.attrs if not a.redeclares]
        for d in e.derived:
            attrs.append((d.name, 'derived', 0, type_text(d.type)))     # a redeclared attribute given in DERIVE is a derived attribute
        ents[e.name] = {'abstract': 1 if e.abstract else 0, 'supers': list(e.supers), 'subs': sorted(fam.subtypes(e.name)), 'attrs': attrs,
                        'inverse': [(v.name, v.entity, v.attr) for v in e.inverse],
                        'inst': [a.name for _, a, _ in fam.p21_attrs(e.name)], 'inst_derived': [1 if r else 0 for _, a, r in fam.p21_attrs(e.name)],
                        'redeclares': any(a.redeclares for a in e.attrs),
                        'struct': {a.name: aggr_struct(fam, a.type) for a in e.attrs if fam.cat(a.type) == 'AGGR'}}
    types = {}
    for t in fam.types:
        b = t.body
        d = {}
        if isinstance(b, tuple) and b[0] == 'enum':
            d = {'enum': [x.lower() for x in b[1]]}
        elif isinstance(b, tuple) and b[0] == 'select':
            d = {'select': sorted(b[1])}
        elif isinstance(b, smodel.Aggr):
            d = {'aggr': b.kind.lower(), 'b1': b.lo if b.lo is not None else 0, 'b2': b.hi if b.hi is not None else UNB, 'uniq': 1 if b.unique else 0,
                 'optl': 1 if b.optional else 0, 'elem': elem_text(fam, b.elem)}
            # (an inner dimension has no name of its own; its shape is compared where an attribute has this type: the S lines)
        elif isinstance(b, smodel.Simple):
            d = {'ref': b.name.lower(), 'fund': PRIM[b.name]}
            if b.width is not None:
                d['desc'] = b.express()         # the width / FIXED of a defined type's underlying type is part of its description
        else:
            d = {'ref': b.name.lower()}
            r = fam.resolve(b)
            if r[0] == 'aggr':
                # a renamed aggregate type: the structure of the aggregate it renames
                ag = r[1]
                d.update({'aggr': ag.kind.lower(), 'b1': ag.lo if ag.lo is not None else 0, 'b2': ag.hi if ag.hi is not None else UNB, 'uniq': 1 if ag.unique else 0,
                          'optl': 1 if ag.optional else 0, 'elem': elem_text(fam, ag.elem), 'renamed': True})
            if r[0] == 'enum':
                d['enum'] = [x.lower() for x in r[1]]
            if r[0] == 'select':
                d['select'] = sorted(r[1])
        types[t.name] = d
    return ents, types


def read_dict(lib, entity_names):
    ents, types, inst = {}, {}, {}
    with drv.Driver('dictdump', lib, timeout=120) as d:
        for l in d.cmd('entities'):
            f = l.decode('latin1').split(' ')
            if f[0] == 'E':
                kv = dict(x.split('=', 1) for x in f[2:])
                ents[f[1]] = {'abstract': int(kv['abstract']), 'supers': [x for x in kv['supers'].split(',') if x], 'subs': sorted(x for x in kv['subs'].split(',') if x), 'attrs': [], 'inverse': []}
            elif f[0] == 'A':
                m = re.match(r'A (\S+) (\d+) (\S+) kind=(\S+) opt=(\d) type=(.*) prim=(\d+) aggr=(\d)$', l.decode('latin1'))
                ents[m.group(1)]['attrs'].append((m.group(3), m.group(4), int(m.group(5)), m.group(6)))
            elif f[0] == 'S':
                ents[f[1]].setdefault('struct', {})[f[2].split('.')[-1]] = f[3]
            elif f[0] == 'V':
                kv = dict(x.split('=', 1) for x in f[4:])
                ents[f[1]]['inverse'].append((f[3], kv['inv_entity'], kv['inv_attr']))
                ents[f[1]].setdefault('inverse_resolved', {})[f[3]] = kv.get('resolved', kv['inv_attr'])
        for l in d.cmd('types'):
            s = l.decode('latin1')
            m = re.match(r'T (\S+) fund=(\d+) desc=(\S*)(.*)$', s)
            kv = dict(x.split('=', 1) for x in m.group(4).split())
            dd = {'fund': int(m.group(2)), 'desc': bytes.fromhex(m.group(3)).decode('latin1')}
            if 'ref' in kv:
                dd['ref'] = kv['ref']
            if 'enum' in kv:
                dd['enum'] = kv['enum'].split(',')
            if 'select' in kv:
                dd['select'] = sorted(kv['select'].split(','))
            if 'aggr' in kv:
                dd.update({'aggr': kv['aggr'], 'b1': kv['b1'], 'b2': kv['b2'], 'uniq': int(kv['uniq']), 'elem': kv['elem'], 'telem': kv.get('telem', kv['elem'])})
            types[m.group(1)] = dd
        for en in entity_names:
            try:
                a = d.cmd('instance ' + en)
            except drv.Crash as e:
                inst[en] = ('crash', e.key())
                d.kill()
                continue
            # (an explicit redeclaration SELF\\sup.x : T appears as an additional 'redefining' entry that Part 21 does not write: not a parameter)
            rows = [x for x in a if x.startswith(b'I ') and b'redef=1' not in x]
            inst[en] = [x.decode().split(' ')[3] for x in rows]
            inst[en + '/derived'] = [int(re.search(rb'derived=(\d)', x).group(1)) for x in rows]
    return ents, types, inst


def compare(fam, ee, te, eg, tg, inst):
    out = []
    for n in sorted(set(ee) - set(eg)):
        out.append(('entity-missing', 'entity %s is not in the dictionary' % n))
    for n in sorted(set(eg) - set(ee)):
        out.append(('entity-extra', 'dictionary has an entity %s the schema does not declare' % n))
    for n, e in ee.items():
        g = eg.get(n)
        if g is None:
            continue
        if g['abstract'] != e['abstract']:
            out.append(('abstract-flag', '%s: abstract=%d, declared %d' % (n, g['abstract'], e['abstract'])))
        if g['supers'] != e['supers']:
            out.append(('supertypes/%s' % ('order' if sorted(g['supers']) == sorted(e['supers']) else 'set'), '%s: supertypes %s, declared %s' % (n, g['supers'], e['supers'])))
        if g['subs'] != e['subs']:
            out.append(('subtypes', '%s: subtypes %s, declared %s' % (n, g['subs'], e['subs'])))
        ga = [(a[0].split('.')[-1], a[1], a[2], a[3]) for a in g['attrs']]
        ea = e['attrs']
        if e.get('redeclares'):
            ga = [a for a in ga if a[1] != 'redefining' and a[0] in [x[0] for x in ea]]
        if [a[0] for a in ga] != [a[0] for a in ea]:
            cls = 'order' if sorted(a[0] for a in ga) == sorted(a[0] for a in ea) else 'set'
            out.append(('attributes/%s' % cls, '%s: attributes %s, declared %s' % (n, [a[0] for a in ga], [a[0] for a in ea])))
        else:
            for x, y in zip(ga, ea):
                if x[1] != y[1]:
                    out.append(('attribute-kind/%s->%s' % (y[1], x[1]), '%s.%s is %s in the dictionary, declared %s' % (n, x[0], x[1], y[1])))
                if x[2] != y[2]:
                    out.append(('attribute-optional', '%s.%s: optional=%d, declared %d' % (n, x[0], x[2], y[2])))
                if x[3] != y[3]:
                    k = fam.cat(next(a.type for a in fam.tmap()[1][n].attrs if a.name == x[0])) if x[1] == 'explicit' else 'derived'
                    out.append(('attribute-type/%s' % k, '%s.%s: type %r, declared %r' % (n, x[0], x[3], y[3])))
        for an, st in e.get('struct', {}).items():
            gs = g.get('struct', {}).get(an)
            if gs is not None and gs != st:
                cls = 'unique' if re.sub(r'u\d', 'u', gs) == re.sub(r'u\d', 'u', st) else ('optional' if re.sub(r'o\d', 'o', gs) == re.sub(r'o\d', 'o', st) else 'shape')
                out.append(('attribute-aggregate/%s' % cls, '%s.%s: aggregate type %s, declared %s' % (n, an, gs, st)))
        if sorted(g['inverse']) != sorted(e['inverse']):
            out.append(('inverse-attributes', '%s: inverse %s, declared %s' % (n, g['inverse'], e['inverse'])))
        else:
            for iname, ient, iattr in e['inverse']:
                if g.get('inverse_resolved', {}).get(iname, iattr) != iattr:
                    out.append(('inverse-attribute-not-resolved', '%s.%s FOR %s: the descriptor of the inverted attribute is %s' % (n, iname, iattr, g['inverse_resolved'].get(iname))))
        gi = inst.get(n)
        if isinstance(gi, tuple):
            out.append(('instance-crash/%s/%s' % gi[1], 'creating an instance of %s crashes: %s' % (n, gi[1])))
        elif gi is not None and gi != e['inst']:
            out.append(('instance-attribute-order/%s' % ('order' if sorted(gi) == sorted(e['inst']) else 'set'), 'fresh %s exposes %s, Part 21 order is %s' % (n, gi, e['inst'])))
        elif gi is not None and inst.get(n + '/derived') is not None and inst[n + '/derived'] != e['inst_derived']:
            out.append(('instance-attribute-derived', 'fresh %s: attributes %s are marked derived %s, the schema derives %s' % (n, gi, inst[n + '/derived'], e['inst_derived'])))
    for n in sorted(set(te) - set(tg)):
        out.append(('type-missing/%s' % ('renamed' if 'ref' in te[n] and ('enum' in te[n] or 'select' in te[n]) else next(iter(te[n]), 'x')), 'type %s is not in the dictionary' % n))
    for n in sorted(set(tg) - set(te)):
        out.append(('type-extra', 'dictionary has a type %s the schema does not declare' % n))
    for n, t in te.items():
        g = tg.get(n)
        if g is None:
            continue
        if 'enum' in t and g.get('enum') != t['enum']:
            out.append(('enumeration-items/%s' % ('order' if sorted(g.get('enum') or []) == sorted(t['enum']) else 'set'), 'type %s: items %s, declared %s' % (n, g.get('enum'), t['enum'])))
        if 'select' in t and g.get('select') != t['select']:
            out.append(('select-members', 'type %s: members %s, declared %s' % (n, g.get('select'), t['select'])))
        if 'desc' in t and ' '.join(g.get('desc', '').upper().split()) != ' '.join(t['desc'].upper().split()):
            out.append(('type-description/width', 'type %s: described as %r, declared %r' % (n, g.get('desc'), t['desc'])))
        if 'ref' in t and g.get('ref') != t['ref'] and ('aggr' not in t or t.get('renamed')):
            out.append(('underlying-type', 'type %s: underlying %s, declared %s' % (n, g.get('ref'), t['ref'])))
        if 'aggr' in t:
            if g.get('aggr') != t['aggr']:
                out.append(('aggregate-kind', 'type %s: %s, declared %s' % (n, g.get('aggr'), t['aggr'])))
            else:
                if (str(g['b1']), str(g['b2'])) != (str(t['b1']), str(t['b2'])):
                    out.append(('aggregate-bounds', 'type %s: [%s:%s], declared [%s:%s]' % (n, g['b1'], g['b2'], t['b1'], t['b2'])))
                if g['uniq'] != t['uniq']:
                    out.append(('aggregate-unique', 'type %s: unique=%d, declared %d' % (n, g['uniq'], t['uniq'])))
                if ('optional' in g['desc'].lower()) != bool(t['optl']):
                    out.append(('aggregate-optional', 'type %s: description %r, declared OPTIONAL=%d' % (n, g['desc'], t['optl'])))
                if g['elem'] != t['elem']:
                    out.append(('aggregate-element', 'type %s: element type %s, declared %s' % (n, g['elem'], t['elem'])))
                elif g.get('telem', g['elem']) != t['elem']:
                    out.append(('aggregate-element/asked-of-the-%stype' % ('renamed-' if t.get('renamed') else ''), 'type %s: AggrElemTypeDescriptor() of its own descriptor names %s, declared %s' % (n, g.get('telem'), t['elem'])))
    return out


# ------------------------------------------------------------------ accessor round trip (generated C++)

def cxxname(n):
    return 'Sdai' + n[0].upper() + n[1:].lower()


def accessor_test(fam):
    """C++ source that stores and reads back a value through every generated accessor of simple kind"""
    lines = ['#include "schema.h"', '#include <stdio.h>', '#include <string.h>', 'int main() {', '  Registry reg( SchemaInit );', '  int bad = 0;']
    n = 0
    for e in fam.entities:
        if e.abstract:
            continue
        for a in e.attrs:
            r = fam.resolve(a.type)
            acc = a.name.lower() + '_'
            cn = cxxname(e.name)
            if r[0] == 'simple' and r[1] == 'INTEGER':
                vals = ['0', '-1', '2147483648L', '7']
                for v in vals:
                    lines.append('  { %s x; x.%s( %s ); if( x.%s() != %s ) { printf("MISMATCH %s.%s integer %s\\n"); bad++; } }' % (cn, acc, v, acc, v, e.name, a.name, v))
                    n += 1
            elif r[0] == 'simple' and r[1] in ('REAL', 'NUMBER'):
                for v in ['0.0', '-1.5', '1e300', '3.25']:
                    lines.append('  { %s x; x.%s( %s ); if( x.%s() != %s ) { printf("MISMATCH %s.%s real %s\\n"); bad++; } }' % (cn, acc, v, acc, v, e.name, a.name, v))
                    n += 1
            elif r[0] == 'simple' and r[1] == 'STRING':
                for v in ['"\'abc\'"', '"\'\'"', '"\'it\'\'s\'"']:
                    lines.append('  { %s x; x.%s( %s ); if( strcmp( x.%s().c_str(), %s ) ) { printf("MISMATCH %s.%s string\\n"); bad++; } }' % (cn, acc, v, acc, v, e.name, a.name))
                    n += 1
            elif r[0] == 'simple' and r[1] in ('BOOLEAN', 'LOGICAL'):
                for v in (['BTrue', 'BFalse'] if r[1] == 'BOOLEAN' else ['LTrue', 'LFalse', 'LUnknown']):
                    lines.append('  { %s x; x.%s( %s ); if( x.%s() != %s ) { printf("MISMATCH %s.%s logical %s\\n"); bad++; } }' % (cn, acc, v, acc, v, e.name, a.name, v))
                    n += 1
            elif r[0] == 'entity':
                tn = cxxname(r[1])
                lines.append('  { %s x; %s * t = new %s; x.%s( t ); if( x.%s() != t ) { printf("MISMATCH %s.%s entity\\n"); bad++; } }' % (cn, tn, tn, acc, acc, e.name, a.name))
                n += 1
    lines += ['  printf("accessors_checked %d mismatches %%d\\n", bad);' % n, '  return bad ? 1 : 0;', '}']
    return '\n'.join(lines) + '\n', n


def run_accessor_test(fam, lib):
    src, n = accessor_test(fam)
    d = drv.scratch_dir('acc')
    try:
        p = os.path.join(d, 'acc.cc')
        with open(p, 'w') as f:
            f.write(src)
        exe = os.path.join(d, 'acc')
        b = build.ensure('plain')
        cmd = ['g++', '-std=c++11', '-O0', '-w'] + build._incs('plain') + ['-I' + lib.gen, p, '-o', exe, lib.so, '-L' + os.path.join(b, 'lib'),
                                                                          '-Wl,-rpath,' + os.path.join(b, 'lib'), '-Wl,-rpath,' + lib.dir] + build.LIBS
        r = subprocess.run(cmd, stdout=subprocess.PIPE, stderr=subprocess.STDOUT)
        if r.returncode != 0:
            return {'compile_error': r.stdout.decode('latin1')[-600:], 'n': n}
        rc, out, _ = common.run([exe], timeout=120, merge=True, env=common.ASAN_ENV)
        return {'rc': rc, 'out': out.decode('latin1'), 'n': n}
    finally:
        shutil.rmtree(d, ignore_errors=True)


def variants(fam):
    """the same schema in other spellings: declarations in reverse order; identifiers and keywords upper-cased"""
    rev = smodel.Schema(fam.name, list(reversed(fam.types)), list(reversed(fam.entities)))
    up = fam.express().upper().replace("END_SCHEMA;", "END_SCHEMA;")
    return [('reversed', rev.express()), ('upper-case', up)]


def programs(tier):
    progs = [smodel.family_K('fam_k', pairs=[('inte', 'stri'), ('ref', 'list_int')], renamed=True), smodel.family_I('fam_i'), family_V(), family_A(), family_R()] + family_X()
    progs += family_D(4, 'fam_d4')
    # of the five-entity graphs the quick tier keeps those where an entity with several supertypes is itself a supertype, listed second or
    # later, of another entity with several supertypes (multiple inheritance through multiple inheritance)
    mi_through_mi = lambda sup: any(len(sup[i]) > 1 and any(len(sup[j]) > 1 for j in sup[i][1:]) for i in range(len(sup)))
    if tier != 'thorough':
        progs += family_D(5, 'fam_d5q', only=lambda sup: mi_through_mi(sup) or mi_through_mi(tuple(tuple(reversed(x)) for x in sup)))
    if tier == 'thorough':
        progs.append(smodel.family_K('fam_kr', pairs=[], renamed=True, only=['enum2', 'seldef2', 'inte']))
        progs += family_D(5, 'fam_d5')
    return progs


def family_X():
    """shapes kept in schemas of their own, because one that does not build would hide every other: named two-dimensional aggregates, named aggregates of
    selects, a select with two aggregate members of the same kind"""
    S, N, A, T, E, At = smodel.Simple, smodel.Named, smodel.Aggr, smodel.TypeDecl, smodel.Entity, smodel.Attr
    tg = lambda: E('tg', [At('v', S('INTEGER'))])
    tg2 = lambda: E('tg2', [At('w', S('STRING'))])
    return [
        smodel.Schema('fam_x2d', [T('grid', A('LIST', 0, None, A('LIST', 0, None, S('INTEGER')))), T('cells', A('ARRAY', 1, 2, A('ARRAY', 1, 2, S('REAL')))),
                                  T('row', A('LIST', 0, None, S('INTEGER'))), T('rows', A('LIST', 0, None, N('row'))), T('refgrid', A('LIST', 0, None, A('SET', 0, None, N('tg'))))],
                      [tg(), E('e_grid', [At('a', N('grid'))]), E('e_cells', [At('a', N('cells'))]), E('e_rows', [At('a', N('rows'))]), E('e_refgrid', [At('a', N('refgrid'))]),
                       E('o_grid', [At('a', N('grid'), optional=True), At('b', S('INTEGER'))])]),
        smodel.Schema('fam_xas', [T('dint', S('INTEGER')), T('dstr', S('STRING')), T('seldef', ('select', ['dint', 'dstr'])), T('selent', ('select', ['tg', 'tg2'])),
                                  T('lsel', A('LIST', 0, None, N('selent'))), T('ssel', A('SET', 1, None, N('seldef'))),
                                  T('color', ('enum', ['red', 'green'])), T('acol', A('LIST', 0, None, N('color'))), T('lcol', A('SET', 0, None, N('color'))), T('zcol', A('BAG', 0, None, N('color'))),
                                  T('hue', N('color')), T('lhue', A('LIST', 0, None, N('hue')))],
                      [tg(), tg2(), E('e_lsel', [At('a', N('lsel'))]), E('e_ssel', [At('a', N('ssel'))]), E('e_inl', [At('a', A('LIST', 0, None, N('selent')))]),
                       E('e_acol', [At('a', N('acol'))]), E('e_lcol', [At('a', N('lcol'))]), E('e_zcol', [At('a', N('zcol'))]), E('e_lhue', [At('a', N('lhue'))])]),
        smodel.Schema('x_select_of_two_aggregates_of_one_kind', [T('li', A('LIST', 0, None, S('INTEGER'))), T('lr', A('LIST', 0, None, S('REAL'))), T('sel2a', ('select', ['li', 'lr']))],
                      [E('e_sel2a', [At('a', N('sel2a'))])]),
    ]


def family_R():
    S, N = smodel.Simple, smodel.Named
    R, Nu, I = S('REAL'), S('NUMBER'), S('INTEGER')
    A, D, E = smodel.Attr, smodel.Derived, smodel.Entity
    return smodel.Schema('fam_r', [], [
        E('item', [A('x', Nu), A('k', I)]),
        # redeclares x with a specialised type, THEN declares weight; a subtype derives weight
        E('stock_item', [A('x', R, redeclares='item'), A('weight', R), A('bin', I)], supers=['item']),
        E('unit_item', [A('u', I)], supers=['stock_item'], derived=[D('weight', R, '1.0', redeclares='stock_item')]),
        # control: the same without the redeclaration in between
        E('plain_item', [A('weight', R), A('bin', I)], supers=['item']),
        E('unit_plain_item', [A('u', I)], supers=['plain_item'], derived=[D('weight', R, '1.0', redeclares='plain_item')]),
        # own attribute first, redeclaration second; the last own attribute derived below
        E('late_item', [A('weight', R), A('x', R, redeclares='item'), A('bin', I)], supers=['item']),
        E('unit_late_item', [A('u', I)], supers=['late_item'], derived=[D('bin', I, '7', redeclares='late_item')]),
        # two levels of redeclaration
        E('fine_item', [A('tol', R)], supers=['stock_item']),
        E('unit_fine_item', [], supers=['fine_item'], derived=[D('tol', R, '0.5', redeclares='fine_item'), D('bin', I, '1', redeclares='stock_item')]),
    ])


def family_A():
    """every aggregate kind x UNIQUE x OPTIONAL (ARRAY only) x {INTEGER, entity}, as a named type and in-line in an attribute, and as the inner
    dimension of a two-dimensional aggregate"""
    S, N, A = smodel.Simple, smodel.Named, smodel.Aggr
    types, ents = [], [smodel.Entity('tg', [smodel.Attr('v', S('INTEGER'))])]
    attrs = []
    k = 0
    for kind in ('ARRAY', 'LIST', 'SET', 'BAG'):
        for uniq in ((False, True) if kind in ('ARRAY', 'LIST') else (False,)):      # UNIQUE is allowed for ARRAY and LIST only
            for optl in ((False, True) if kind == 'ARRAY' else (False,)):
                for bi, base in enumerate((S('INTEGER'), N('tg'))):
                    lo, hi = (1, 3) if kind == 'ARRAY' else (0, None)
                    t = A(kind, lo, hi, base, unique=uniq, optional=optl)
                    nm = 't_%s%s%s_%d' % (kind.lower(), '_u' if uniq else '', '_o' if optl else '', bi)
                    types.append(smodel.TypeDecl(nm, t))
                    attrs.append(smodel.Attr('i%d' % k, t))
                    attrs.append(smodel.Attr('n%d' % k, N(nm), optional=(k % 3 == 0)))
                    # as inner and as outer dimension
                    attrs.append(smodel.Attr('x%d' % k, A('LIST', 1, None, t)))
                    attrs.append(smodel.Attr('y%d' % k, A(kind, lo, hi, A('LIST', 0, 2, base), unique=uniq, optional=optl)))
                    k += 1
    # spread over entities of 8 attributes so that one wrong attribute does not hide the others
    for j in range(0, len(attrs), 8):
        ents.append(smodel.Entity('holder%d' % (j // 8), attrs[j:j + 8]))
    return smodel.Schema('fam_a', types, ents)


def family_D(n, name, per_schema=60, only=None):
    """every inheritance graph on n entities e0..e(n-1) (supertypes among the earlier ones, transitively reduced, weakly connected), each entity with
    one own attribute; entities with several supertypes in both listing orders.  Packed: many graphs (name prefix gK_) per schema."""
    import itertools
    S = smodel.Simple
    graphs = []
    choices = [[()]]
    for i in range(1, n):
        choices.append([c for r in range(0, i + 1) for c in itertools.combinations(range(i), r)])
    for sup in itertools.product(*choices):
        anc = []
        ok = True
        for i in range(n):
            a = set()
            for j in sup[i]:
                a |= {j} | anc[j]
            # transitively reduced: no listed supertype is an ancestor of another listed supertype
            if any(j in anc[k2] for j in sup[i] for k2 in sup[i] if k2 != j):
                ok = False
                break
            anc.append(a)
        if not ok:
            continue
        # weakly connected
        adj = {i: set(sup[i]) for i in range(n)}
        for i in range(n):
            for j in sup[i]:
                adj[j].add(i)
        seen, todo = {0}, [0]
        while todo:
            x = todo.pop()
            for y in adj[x]:
                if y not in seen:
                    seen.add(y)
                    todo.append(y)
        if len(seen) != n:
            continue
        if only is not None and not only(sup):
            continue
        graphs.append(sup)
        if any(len(x) > 1 for x in sup):
            graphs.append(tuple(tuple(reversed(x)) for x in sup))
    out = []
    for c in range(0, len(graphs), per_schema):
        ents = []
        for g, sup in enumerate(graphs[c:c + per_schema]):
            pre = 'g%d_' % (c + g)
            for i in range(n):
                ents.append(smodel.Entity('%se%d' % (pre, i), [smodel.Attr('a%d' % i, S('INTEGER'))], supers=['%se%d' % (pre, j) for j in sup[i]]))
        out.append(smodel.Schema('%s_%d' % (name, c // per_schema), [], ents))
    return out


def family_V():
    """inverse attributes and naming cases"""
    S, N, A = smodel.Simple, smodel.Named, smodel.Aggr
    sch = smodel.Schema('fam_v', [smodel.TypeDecl('class_t', ('enum', ['new', 'delete', 'int']))], [
        smodel.Entity('owner', [smodel.Attr('nm', S('STRING'))], inverse=[smodel.Inverse('items', 'item', 'own', 'SET', 0, None), smodel.Inverse('single', 'item2', 'own2')]),
        smodel.Entity('item', [smodel.Attr('own', N('owner'))]),
        smodel.Entity('doc', [smodel.Attr('title', S('STRING'))], inverse=[smodel.Inverse('approved_by', 'approval', 'of_doc'), smodel.Inverse('second_by', 'approval', 'also_doc')]),
        smodel.Entity('approval', [smodel.Attr('of_doc', N('doc')), smodel.Attr('also_doc', N('doc'))]),
        smodel.Entity('item2', [smodel.Attr('own2', N('owner')), smodel.Attr('others', A('LIST', 0, None, N('owner')))]),
        smodel.Entity('sub_owner', [smodel.Attr('extra', S('INTEGER'))], supers=['owner']),
        smodel.Entity('namespace', [smodel.Attr('template', N('class_t')), smodel.Attr('operator', S('INTEGER'), optional=True)]),
        smodel.Entity('data', [smodel.Attr('endsec', S('REAL'))], supers=['namespace']),
        smodel.Entity('pipe__fitting', [smodel.Attr('bore', N('nominal__bore')), smodel.Attr('ends', N('end__kind'))]),
        smodel.Entity('reducing__fitting', [smodel.Attr('small__bore', S('INTEGER'))], supers=['pipe__fitting']),
        smodel.Entity('x_', [smodel.Attr('a__', S('INTEGER'))]),
    ])
    sch.add(smodel.TypeDecl('nominal__bore', S('INTEGER')), smodel.TypeDecl('end__kind', ('enum', ['flange__end', 'weld'])))
    return sch


def replay(path):
    obj = json.load(open(path))
    print(json.dumps(obj, indent=1)[:1500])
    return 1


def main():
    args = common.parse_args(sys.argv[1:])
    if args.replay:
        sys.exit(replay(args.replay))
    chk = common.Check(PID, args.tier, deadline_s=args.deadline)
    chk.rule = ('programs: packed attribute-kind family (every simple/defined/enumeration/select/aggregate kind, OPTIONAL variants), inheritance family (chains, diamond, two roots, '
                'derived and redeclared attributes, ABSTRACT, ONEOF/AND/ANDOR), inverse/naming family, each also with reversed declaration order and in upper case; exp2cxx -> compile '
                '-> every descriptor of the registered dictionary compared with the dictionary computed from the abstract model; fresh instance of every entity; generated accessor '
                'round trip for every INTEGER/REAL/NUMBER/STRING/BOOLEAN/LOGICAL/entity attribute; state = (schema, declaration), transition = one descriptor/accessor comparison')
    chk.assumptions = ['subtypes and select members are compared as sets, supertypes/attributes/enumeration items as ordered lists', 'the OPTIONAL flag of an aggregate is read from the descriptor\'s description text (there is no getter)']
    for fam in programs(args.tier):
        ee, te = expected(fam)
        try:
            lib = build.schema_lib(fam.express(), 'plain')
        except build.GenError as e:
            chk.violation('%s/does-not-build/%s/%s' % (PID, fam.name, e.stage), 'generated code of %s does not build (%s): %s' % (fam.name, e.stage, e.out[-300:].decode('latin1')), {'family': fam.name})
            continue
        names = [e.name for e in fam.entities if not e.abstract]
        try:
            eg, tg, inst = read_dict(lib, names)
        except drv.Crash as e:
            # isolate on the sanitizer build for the site
            key = e.key()
            try:
                sl = build.schema_lib(fam.express(), 'san')
                with drv.Driver('dictdump', sl, 'san', timeout=120) as d2:
                    d2.cmd(e.cmd)
            except drv.Crash as e2:
                key = e2.key()
            except Exception:
                pass
            chk.violation('%s/dictionary-walk-crash/%s/%s/%s' % (PID, key[0], key[1], fam.name), 'walking the dictionary of %s crashes on %r (%s in %s)' % (fam.name, e.cmd, key[0], key[1]), {'family': fam.name, 'schema': fam.express()[:4000]})
            chk.outcome('crash')
            continue
        v = compare(fam, ee, te, eg, tg, inst)
        chk.count(states=len(ee) + len(te), transitions=sum(3 + len(e['attrs']) for e in ee.values()) + len(te) + len(names))
        chk.cls(fam.name)
        if not v:
            chk.outcome('dictionary-equal')
        for kp, what in v:
            chk.outcome(kp.split('/')[0])
            chk.violation('%s/%s' % (PID, kp), '%s: %s' % (fam.name, what), {'family': fam.name, 'what': what})
        chk.sample({'family': fam.name, 'entities': len(ee), 'types': len(te)})
        # other spellings give the same dictionary
        for vname, text in variants(fam):
            try:
                lib2 = build.schema_lib(text, 'plain')
            except build.GenError as e:
                chk.violation('%s/variant-does-not-build/%s/%s' % (PID, vname, fam.name), '%s spelling of %s does not build: %s' % (vname, fam.name, e.out[-200:].decode('latin1')), {'family': fam.name, 'variant': vname})
                continue
            eg2, tg2, inst2 = read_dict(lib2, names)
            chk.count(states=len(ee) + len(te), transitions=len(ee) + len(te))
            strip = lambda T: {k: {kk: vv for kk, vv in d.items() if kk != 'desc'} for k, d in T.items()}
            if eg2 != eg or strip(tg2) != strip(tg) or inst2 != inst:
                diff = [k for k in set(eg) | set(eg2) if eg.get(k) != eg2.get(k)] + [k for k in set(tg) | set(tg2) if strip(tg).get(k) != strip(tg2).get(k)]
                chk.outcome('variant-differs')
                chk.violation('%s/spelling-dependent/%s' % (PID, vname), 'the dictionary of %s changes with the %s spelling: %s' % (fam.name, vname, sorted(diff)[:6]), {'family': fam.name, 'variant': vname})
            else:
                chk.outcome('variant-equal')
        # accessors
        r = run_accessor_test(fam, lib)
        chk.count(transitions=r.get('n', 0))
        if 'compile_error' in r:
            chk.violation('%s/accessor-test-does-not-compile/%s' % (PID, fam.name), 'accessor test for %s does not compile against the generated headers: %s' % (fam.name, r['compile_error'][-300:]), {'family': fam.name})
        elif r['rc'] != 0:
            mism = sorted(set(re.findall(r'MISMATCH (\S+) (\S+)', r['out'])))
            if mism:
                for attr, kind in mism:
                    chk.violation('%s/accessor-mismatch/%s' % (PID, kind), 'accessor of %s (%s) does not read back what the mutator stored' % (attr, kind), {'family': fam.name, 'attr': attr})
            else:
                chk.violation('%s/accessor-test-crash/%s/%s' % (PID, fam.name, r['rc']), 'accessor test ended with status %s: %s' % (r['rc'], r['out'][-200:]), {'family': fam.name})
            chk.outcome('accessor-mismatch')
        else:
            chk.outcome('accessors-ok')
    # several schemas in one file (USE / REFERENCE between them, items of every kind, renamed): the generated code builds, and every entity of
    # every schema is registered
    from vlib import gfam
    multis = [('multi', gfam.MULTI), ('multi_items', gfam.MULTI_ITEMS)] + [(n, t) for n, t, ok in gfam.interface_family(args.tier) if ok][:(6 if args.tier == 'quick' else 72)] + \
        [(n, t) for n, t, ok in gfam.interface_paths() if ok]
    for name, text in multis:
        chk.count(states=1, transitions=1)
        chk.cls('multi-schema-file')
        try:
            ml = build.schema_lib(text, 'plain', tools=False)
        except build.GenError as e:
            chk.outcome('does-not-build')
            # a schema that the generator writes in several passes (<Schema>_1.h, _2.h: its declarations wait for another schema of the file) is a case of its own
            mp = '/multi-pass-suffix-files' if re.search(r'Sdai\w+_\d+(Names)?\.(h|cc)', e.out.decode('latin1')) else ''
            chk.violation('%s/does-not-build/multi-schema-file/%s%s' % (PID, e.stage, mp), 'generated code of the multi-schema file %s does not build (%s): %s' % (name, e.stage, e.out[-300:].decode('latin1')), {'family': name, 'schema': text[:4000]})
            continue
        want = sorted(set(x.lower() for x in re.findall(r'(?im)^\s*ENTITY\s+([A-Za-z][A-Za-z0-9_]*)', text)))
        try:
            with drv.Driver('dictdump', ml, timeout=60) as d:
                got = sorted(set(l.decode('latin1').split(' ')[1] for l in d.cmd('entities') if l.startswith(b'E ')))
        except drv.Crash as e:
            chk.outcome('dictionary-walk-crash')
            chk.violation('%s/dictionary-walk-crash/%s/%s/multi-schema-file' % ((PID,) + e.key()), 'walking the dictionary of %s crashes (%s in %s)' % ((name,) + e.key()), {'family': name, 'schema': text[:4000]})
            continue
        if got != want:
            chk.outcome('entities-differ')
            chk.violation('%s/multi-schema-file/entities-registered' % PID, '%s: registered %s, declared %s' % (name, got, want), {'family': name, 'schema': text[:4000]})
        else:
            chk.outcome('multi-schema-ok')
    if not chk.outcomes:
        chk.harness_error('vacuous')
    sys.exit(chk.finish())


if __name__ == '__main__':
    main()
