#!/usr/bin/python3
"""C08 - complex instances are accepted exactly when the supertype constraints allow them.
Program x input enumeration: families of inheritance graphs (stars, chains, trees, diamonds, two roots,
abstract towers) with every ONEOF/AND/ANDOR constraint tree (depth <= 2, unmentioned subtypes, +-ABSTRACT),
packed into schema libraries; for each graph ALL 2^n-1 subsets of its entity names in several part orders
are offered to the real STEPcomplex constructor (cxdrv) and compared with the legality oracle cxref."""
import sys, os, json, re, itertools
sys.path.insert(0, '/verif')
from vlib import common, build, drv, cxref, smodel, p21run

PID = 'C08'


def exprs2(a, b):
    return [None, ('ONEOF', [a, b]), ('AND', [a, b]), ('ANDOR', [a, b]), ('ONEOF', [a]), a]


def exprs3(a, b, c):
    O, A, R = 'ONEOF', 'AND', 'ANDOR'
    return [None, (O, [a, b, c]), (O, [a, b]), (A, [a, b, c]), (R, [a, b, c]), (A, [a, b]), (R, [a, b]),
            (A, [(O, [a, b]), c]), (R, [(O, [a, b]), c]), (R, [(A, [a, b]), c]), (A, [(R, [a, b]), c]),
            (O, [a, (A, [b, c])]), (O, [(A, [a, b]), c]), (O, [(R, [a, b]), c]), (O, [a, (R, [b, c])])]


def graphs(tier):
    """yield (shape name, cxref.Graph)"""
    E = lambda supers=(), abstract=False, expr=None: {'supers': list(supers), 'abstract': abstract, 'expr': expr}
    for ab in (False, True):
        for x in exprs2('a', 'b'):
            yield 'star2', cxref.Graph({'r': E(abstract=ab, expr=x), 'a': E(['r']), 'b': E(['r'])})
        for x in exprs3('a', 'b', 'c'):
            yield 'star3', cxref.Graph({'r': E(abstract=ab, expr=x), 'a': E(['r']), 'b': E(['r']), 'c': E(['r'])})
    for xr in exprs2('a', 'b'):
        for xa in (None, ('ONEOF', ['a1']), 'a1'):
            for aba in (False, True):
                yield 'chain', cxref.Graph({'r': E(expr=xr), 'a': E(['r'], abstract=aba, expr=xa), 'b': E(['r']), 'a1': E(['a'])})
    for xr in (None, ('ONEOF', ['a', 'b']), ('AND', ['a', 'b']), ('ANDOR', ['a', 'b'])):
        for xa in (None, ('ONEOF', ['a1', 'a2']), ('AND', ['a1', 'a2']), ('ANDOR', ['a1', 'a2'])):
            yield 'tree', cxref.Graph({'r': E(expr=xr), 'a': E(['r'], expr=xa), 'b': E(['r']), 'a1': E(['a']), 'a2': E(['a'])})
    # multiple supertypes
    for xr in (None, ('ONEOF', ['a', 'b']), ('AND', ['a', 'b']), ('ANDOR', ['a', 'b'])):
        for abr in (False, True):
            yield 'diamond', cxref.Graph({'r': E(abstract=abr, expr=xr), 'a': E(['r']), 'b': E(['r']), 'd': E(['a', 'b'])})
    for ab1 in (False, True):
        yield 'tworoots', cxref.Graph({'r1': E(abstract=ab1), 'r2': E(), 'm': E(['r1', 'r2'])})
        yield 'tworoots3', cxref.Graph({'r1': E(abstract=ab1), 'r2': E(), 'm': E(['r1', 'r2']), 'n': E(['r1'])})
    # a subtype of two separate hierarchies, each with its own constraint: m SUBTYPE OF (p1, q2)
    two = [None, ('ONEOF', ['%s1', '%s2']), ('ANDOR', ['%s1', '%s2'])] if tier == 'quick' else [None, ('ONEOF', ['%s1', '%s2']), ('ANDOR', ['%s1', '%s2']), ('AND', ['%s1', '%s2'])]
    sub = lambda x, r: None if x is None else (x[0], [k % r for k in x[1]])
    for xp in two:
        for xq in two:
            for abp in ((False, True) if tier != 'quick' else (True,)):
                yield 'twotrees', cxref.Graph({'p': E(abstract=abp, expr=sub(xp, 'p')), 'p1': E(['p']), 'p2': E(['p']), 'q': E(expr=sub(xq, 'q')), 'q1': E(['q']), 'q2': E(['q']),
                                               'm': E(['p1', 'q2'])})
    # three branches under the root, every branch a supertype itself (an OR choice per branch for the matcher): r > a(a1,a2), b(b1), c(c1)
    for xr in (exprs3('a', 'b', 'c') if tier != 'quick' else [None, ('ANDOR', ['a', 'b', 'c']), ('ONEOF', ['a', 'b', 'c']), ('AND', ['a', 'b', 'c']), ('ANDOR', [('ONEOF', ['a', 'b']), 'c'])]):
        for xa in (None, ('ONEOF', ['a1', 'a2'])):
            yield 'tree3x', cxref.Graph({'r': E(expr=xr), 'a': E(['r'], expr=xa), 'b': E(['r']), 'c': E(['r']), 'a1': E(['a']), 'a2': E(['a']), 'b1': E(['b']), 'c1': E(['c'])})
    # several entities with more than one supertype whose sets of root hierarchies differ: roots a, b, c; m(a, b), n(b, c)[, p(a, c)]
    yield 'mi2roots', cxref.Graph({'a': E(), 'b': E(), 'c': E(), 'm': E(['a', 'b']), 'n': E(['b', 'c'])})
    yield 'mi2roots', cxref.Graph({'a': E(), 'b': E(), 'c': E(), 'n': E(['a', 'b']), 'm': E(['b', 'c'])})
    yield 'mi3roots', cxref.Graph({'a': E(), 'b': E(), 'c': E(), 'm': E(['a', 'b']), 'n': E(['b', 'c']), 'p': E(['a', 'c'])})
    yield 'mi2roots-chain', cxref.Graph({'a': E(), 'b': E(), 'c': E(), 'd': E(), 'm': E(['a', 'b']), 'n': E(['c', 'd']), 'q': E(['m', 'n'])})
    yield 'abstower', cxref.Graph({'r': E(abstract=True), 'a': E(['r'], abstract=True), 'a1': E(['a'])})
    yield 'abstower2', cxref.Graph({'r': E(abstract=True, expr=('ONEOF', ['a', 'b'])), 'a': E(['r'], abstract=True), 'b': E(['r']), 'a1': E(['a'])})
    if tier == 'thorough':
        # five entities: two-level trees under every pair of operators, with a third subtype at the root
        for xr in exprs3('a', 'b', 'c'):
            for xa in (None, ('ONEOF', ['a1', 'a2']), ('AND', ['a1', 'a2'])):
                yield 'tree5', cxref.Graph({'r': E(expr=xr), 'a': E(['r'], expr=xa), 'b': E(['r']), 'c': E(['r']), 'a1': E(['a']), 'a2': E(['a'])})
        for xr in exprs3('a', 'b', 'c'):
            yield 'diamond5', cxref.Graph({'r': E(expr=xr), 'a': E(['r']), 'b': E(['r']), 'c': E(['r']), 'd': E(['a', 'b'])})


def pack(gs, per=60):
    """schema texts with up to `per` graphs each; entity names prefixed g<k>_"""
    out = []
    for i in range(0, len(gs), per):
        chunk = gs[i:i + per]
        text = 'SCHEMA cx%d;\n' % (i // per) + '\n'.join(g.express('g%d_' % (i + k), attr=True) for k, (shape, g) in enumerate(chunk)) + '\nEND_SCHEMA;\n'
        out.append((i, chunk, text))
    return out


_W = {}


def _init(libdir, variant):
    lib = build.SchemaLib(libdir, variant, [])
    _W['d'] = drv.Driver('cxdrv', lib, variant, timeout=30)
    import atexit
    atexit.register(_W['d'].close)


def query(job):
    """job: list of name lists -> list of (sev | ('crash', key))"""
    d = _W['d']
    d.recycle_if_big()
    out = []
    for names in job:
        try:
            a = d.cmd('C ' + ' '.join(names))
            f = a[0].split()
            out.append((int(f[1]), bytes.fromhex(f[3].decode()).decode('latin1') if len(f) > 3 else ''))
        except drv.Crash as e:
            out.append(('crash', list(e.key())))
            d.kill()
    return out


def orders(names, tier):
    s = sorted(names)
    outs = [s, list(reversed(s))]
    if len(s) <= (3 if tier == 'quick' else 4):
        outs = [list(p) for p in itertools.permutations(s)]
    seen = []
    for o in outs:
        if o not in seen:
            seen.append(o)
    return seen


def run_family(chk, tier, variant='san'):
    gs = list(graphs(tier))
    chk.bounds['graphs'] = len(gs)
    for base, chunk, text in pack(gs):
        try:
            lib = build.schema_lib(text, variant, tools=False)
        except build.GenError as e:
            chk.violation('%s/does-not-build/%s' % (PID, e.stage), 'packed graph schema does not build: %s' % e.out[-300:].decode('latin1'), {'schema': text[:3000]})
            continue
        jobs = []
        meta = []
        for k, (shape, g) in enumerate(chunk):
            pre = 'g%d_' % (base + k)
            names = list(g.ents)
            for r in range(1, len(names) + 1):
                for sub in itertools.combinations(names, r):
                    for o in orders(sub, tier):
                        jobs.append([(pre + n).upper() for n in o])
                        meta.append((shape, g, sub, o, pre))
        B = 200
        chunks = [jobs[i:i + B] for i in range(0, len(jobs), B)]
        import multiprocessing as mp
        with mp.get_context('fork').Pool(min(common.NCPU, max(1, len(chunks))), initializer=_init, initargs=(lib.dir, variant)) as pool:
            res = [x for part in pool.map(query, chunks) for x in part]
        byset = {}
        for (shape, g, sub, o, pre), r in zip(meta, res):
            chk.count(states=1, transitions=1)
            chk.cls(shape)
            multi = any(len(g.ents[n]['supers']) > 1 for n in sub)
            case = {'shape': shape, 'graph': g.express(), 'subset': list(sub), 'order': list(o)}
            if r[0] == 'crash':
                chk.outcome('crash')
                chk.violation('%s/crash/%s/%s%s' % (PID, r[1][0], r[1][1], '/multiple-supertypes' if multi else ''), 'constructing the complex instance %s crashes (%s in %s)' % (list(o), r[1][0], r[1][1]), case)
                continue
            acc = r[0] > 0
            byset.setdefault((pre, frozenset(sub)), set()).add(acc)
            closed = all(sp in sub for n in sub for sp in g.ents[n]['supers'])
            if closed and not cxref.connected(g, sub):
                # complete but unrelated hierarchies side by side: the property text can be read both ways, no verdict.  (A set that lacks a
                # supertype of one of its members is illegal by the first clause of the property, connected or not.)
                chk.outcome('unjudged-disconnected')
                continue
            if len(sub) == 1:
                chk.outcome('unjudged-single-part')      # a one-part "complex" instance is not conforming Part 21 (internal mapping is required)
                continue
            want = cxref.legal(g, sub)
            if acc == want:
                chk.outcome('accepted-legal' if acc else 'refused-illegal')
                if len(sub) > 1:
                    chk.sample({'graph': g.express().replace('\n', ' '), 'subset': list(sub), 'accepted': acc}, maxn=8)
            else:
                kind = 'accepted-illegal' if acc else 'refused-legal'
                why = classify(g, sub)
                chk.outcome(kind)
                # which supertype is missing decides the defect, not the name of the graph family it was seen in
                chk.violation(('%s/%s/%s' % (PID, kind, why)) if why.startswith('missing-supertype') else '%s/%s/%s/%s' % (PID, kind, shape, why), 'set %s under [%s] is %s but the reader %s it (%s)' % (sorted(sub), g.express().replace('\n', ' '), 'legal' if want else 'illegal',
                                                                                                                 'accepts' if acc else 'refuses: ' + r[1][:60], why), case)
        # ---- file level: the same subsets (sorted parts) as '#10=(A()B()...);' between two plain instances
        fcases = []
        fmeta = []
        for k, (shape, g) in enumerate(chunk):
            pre = 'g%d_' % (base + k)
            names = list(g.ents)
            roots = [n for n in names if not g.ents[n]['supers'] and not g.ents[n]['abstract'] and cxref.legal(g, [n])]
            if not roots:
                continue
            plain = (pre + roots[0]).upper()
            for r in range(2, len(names) + 1):
                for sub in itertools.combinations(names, r):
                    parts = ''.join('%s(7)' % (pre + n).upper() for n in sorted(sub))
                    body = '#1=%s(1);\n#10=(%s);\n#20=%s(2);\n' % (plain, parts, plain)
                    fcases.append({'text': smodel.HEADER % ('CX%d' % (base // 60)) + body + smodel.FOOTER, 'mode': 'read'})
                    fmeta.append((shape, g, sub))
        fres = p21run.run_many(lib, fcases, variant=variant, chunksize=16) if fcases else []
        for (shape, g, sub), c, r in zip(fmeta, fcases, fres):
            chk.count(states=1, transitions=1)
            chk.cls('file/' + shape)
            multi = any(len(g.ents[n]['supers']) > 1 for n in sub)
            case = {'shape': shape, 'graph': g.express(), 'subset': list(sub), 'order': sorted(sub), 'file': c['text']}
            if 'crash' in r:
                chk.outcome('crash')
                chk.violation('%s/file-crash/%s/%s%s' % (PID, r['crash'][0], r['crash'][1], '/multiple-supertypes' if multi else ''), 'reading a file with the complex instance %s crashes (%s in %s)' % (sorted(sub), r['crash'][0], r['crash'][1]), case)
                continue
            ids = [i for i, st, en, t in r['dump']]
            acc = 10 in ids
            if 1 not in ids or 20 not in ids:
                chk.violation('%s/file-not-confined/%s' % (PID, 'accepted' if acc else 'refused'), 'the plain instances next to the complex instance %s were lost: %s' % (sorted(sub), ids), case)
            prev = byset.get((('g%d_' % (base + [x[1] for x in chunk].index(g))), frozenset(sub)))
            if prev is not None and prev != {acc}:
                chk.violation('%s/file-vs-constructor/%s' % (PID, shape), 'STEPcomplex construction says %s, reading the file says %s for %s' % (sorted(prev), acc, sorted(sub)), case)
            if not acc and r['esev'] >= 2:
                chk.violation('%s/file-refused-silently/%s' % (PID, shape), 'the complex instance %s was not created but the read is clean (severity %d)' % (sorted(sub), r['esev']), case)
            chk.outcome('file-accepted' if acc else 'file-refused')
        for (pre, sub), verdicts in byset.items():
            if len(verdicts) > 1:
                chk.violation('%s/order-dependent/%d-parts' % (PID, len(sub)), 'the verdict for %s depends on the order of the parts' % sorted(sub), {'subset': sorted(sub)})


def classify(g, sub):
    """which clause of the property decides the set"""
    S = set(sub)

    def roots(n):
        sup = g.ents[n]['supers']
        return {n} if not sup else set().union(*[roots(x) for x in sup])
    miss = set()
    for n in S:
        sup = g.ents[n]['supers']
        for s in sup:
            if s not in S:
                present = [x for x in sup if x in S]
                if not present:
                    miss.add('none-present')
                elif any(roots(s) & roots(x) for x in present):
                    miss.add('sibling-supertype-present')      # a diamond: the supertype next to it, under the same root, is there
                else:
                    miss.add('other-hierarchy-present')
    for m in ('none-present', 'other-hierarchy-present', 'sibling-supertype-present'):
        if m in miss:
            return 'missing-supertype:' + m
    for n in S:
        present = frozenset(x for x in g.subs[n] if x in S)
        if present not in cxref.allowed_present(g, n):
            if not present and g.ents[n]['abstract']:
                return 'abstract-without-subtype'
            e = g.ents[n]['expr']
            return 'constraint:%s' % (e[0] if isinstance(e, tuple) else ('implicit' if e is None else 'single'))
    if len(S) == 1:
        return 'single-part'
    return 'legal:%d-parts%s' % (len(S), ':abstract' if any(g.ents[n]['abstract'] for n in S) else '')


def replay(path):
    obj = json.load(open(path))
    c = obj['case']
    text = 'SCHEMA cxr;\n' + c['graph'] + '\nEND_SCHEMA;\n'
    lib = build.schema_lib(text, 'san', tools=False)
    _init(lib.dir, 'san')
    r = query([[n.upper() for n in c['order']]])[0]
    print(c['graph'])
    print('parts', c['order'], '->', r)
    return 1


def main():
    args = common.parse_args(sys.argv[1:])
    if args.replay:
        sys.exit(replay(args.replay))
    chk = common.Check(PID, args.tier, deadline_s=args.deadline)
    chk.rule = ('programs: inheritance graphs of 3-5 entities (stars with 2 and 3 subtypes, chains, two-level trees, diamonds, two roots, a subtype of two separately constrained hierarchies, three-branch two-level trees, abstract towers; thorough adds 6-entity trees and diamonds) '
                'with every ONEOF/AND/ANDOR constraint tree of depth <= 2 over the direct subtypes, every subset of subtypes left unmentioned, +-ABSTRACT; packed 60 graphs per schema library; '
                'inputs: ALL 2^n-1 non-empty subsets of the entity names of each graph in every part order (n<=3; thorough n<=4; sorted+reversed beyond); state = (graph, subset, order), '
                'transition = one STEPcomplex construction on the sanitizer build; oracle = cxref.legal for every subset that is connected or lacks a supertype of one of its members')
    chk.assumptions = ['supertype-closed but disconnected subsets (complete unrelated hierarchies side by side) are explored for memory safety only', 'accepted = severity above WARNING, as STEPfile::CreateSubSuperInstance decides',
                       'cxref follows the property text: closure under supertypes, constraint over the direct subtypes present with unmentioned subtypes ANDOR-ed, ABSTRACT needs a subtype']
    run_family(chk, args.tier)
    if chk.outcomes.get('refused-illegal', 0) == 0 or chk.outcomes.get('accepted-legal', 0) == 0:
        chk.harness_error('vacuous: %s' % dict(chk.outcomes))
    sys.exit(chk.finish())


if __name__ == '__main__':
    main()
