#!/usr/bin/python3
"""C18 - the Python generator emits an importable module that mirrors the schema.
Program enumeration over the model-driven families (expected classes/bases/constructor parameters are
computed from the abstract schema model, not from the tool): exp2python, then py_compile + import +
inspect in a fresh isolated interpreter against the bundled run-time package."""
import sys, os, json, re, shutil, subprocess
sys.path.insert(0, '/verif')
from vlib import common, build, gfam, smodel, drv

PID = 'C18'
PYPKG = common.REPO + '/src/exp2python/python'

INSPECT = r'''
import sys, json, inspect, importlib
sys.path.insert(0, %(pkg)r)
sys.path.insert(0, %(moddir)r)
out = {}
for name in %(mods)r:
    try:
        import py_compile
        py_compile.compile(%(moddir)r + '/' + name + '.py', doraise=True, cfile=%(moddir)r + '/' + name + '.pyc')
    except Exception as e:
        out[name] = {'compile_error': '%%s: %%s' %% (type(e).__name__, str(e)[:300])}
        continue
    try:
        m = importlib.import_module(name)
    except BaseException as e:
        out[name] = {'import_error': '%%s: %%s' %% (type(e).__name__, str(e)[:300])}
        continue
    classes = {}
    others = {}
    for k, v in vars(m).items():
        if k.startswith('_'):
            continue
        if inspect.isclass(v) and any(b.__name__ == 'ENUMERATION' for b in getattr(v, '__mro__', ())) and v.__name__ != 'ENUMERATION':
            others[k] = {'kind': 'ENUMERATION', 'items': [i.name for i in v], 'alias_of': v.__name__ if v.__name__ != k else None}
        elif inspect.isclass(v) and (getattr(v, '__module__', None) != name or v.__name__ != k):
            if getattr(v, '__module__', None) in (name, 'builtins'):
                others[k] = {'kind': 'alias', 'alias_of': v.__name__}
        elif inspect.isclass(v) and getattr(v, '__module__', None) == name:
            try:
                params = [p for p in inspect.signature(v.__init__).parameters][1:]
            except Exception as e:
                params = ['<signature error %%s>' %% e]
            classes[k] = {'bases': [b.__name__ for b in v.__bases__], 'init': params,
                          'own_init': '__init__' in vars(v)}
        elif type(v).__name__ in ('SELECT', 'LIST', 'SET', 'BAG', 'ARRAY'):
            d = {'kind': type(v).__name__}
            if d['kind'] == 'SELECT':
                d['members'] = [getattr(t, '_typedef', None) if isinstance(getattr(t, '_typedef', None), str) else str(getattr(t, '_typedef', t)) for t in v._base_types]
                d['unresolved'] = [x for x in d['members'] if isinstance(x, str) and not hasattr(m, x)]
            else:
                d['b1'] = v.bound_1()
                d['b2'] = v.bound_2()
                bt = getattr(v, '_base_type', None)
                d['elem'] = bt if isinstance(bt, str) else getattr(bt, '__name__', str(bt))
                d['unique'] = bool(getattr(v, '_unique', False))
                d['optional'] = bool(getattr(v, '_optional', False))
            others[k] = d
    out[name] = {'classes': classes, 'others': others}
print('@@JSON@@' + json.dumps(out))
'''


def expected(fam):
    """from the abstract model: {entity: (bases, init params)}, {type: description}"""
    ents = {}
    for e in fam.entities:
        anc = [fam.tmap()[1][n] for n in fam.ancestors_ordered(e.name)] if hasattr(fam, 'ancestors_ordered') else [e]
        ents[e.name] = {'bases': list(e.supers), 'init': [a.name for _, a, redecl in fam.p21_attrs(e.name)],
                        'inverse_names': [v.name for x in anc for v in x.inverse], 'derived_names': [d.name for x in anc for d in x.derived]}
    types = {}
    for t in fam.types:
        b = t.body
        if isinstance(b, tuple) and b[0] == 'enum':
            types[t.name] = {'kind': 'ENUMERATION', 'items': list(b[1])}
        elif isinstance(b, tuple) and b[0] == 'select':
            types[t.name] = {'kind': 'SELECT', 'members': list(b[1])}
        elif isinstance(b, smodel.Aggr):
            types[t.name] = {'kind': b.kind, 'b1': b.lo, 'b2': b.hi, 'elem': b.elem.express().lower()}
        elif isinstance(b, smodel.Simple):
            types[t.name] = {'kind': 'class', 'base': b.name}
        else:
            types[t.name] = {'kind': 'class', 'base': b.name}
    return ents, types


def text_expectation(text):
    """for schemas without a model: entity names, supertypes (declaration order) and own explicit attribute names, read from the text by a small parser"""
    ents = {}
    code = re.sub(r'\(\*.*?\*\)', ' ', text, flags=re.S)
    code = re.sub(r'--[^\n]*', ' ', code)
    for m in re.finditer(r'\bENTITY\s+([A-Za-z][A-Za-z0-9_]*)(.*?)\bEND_ENTITY\s*;', code, re.S | re.I):
        name = m.group(1).lower()
        body = m.group(2)
        head, _, rest = body.partition(';')
        sm = re.search(r'SUBTYPE\s+OF\s*\(([^)]*)\)', head, re.I)
        supers = [x.strip().lower() for x in sm.group(1).split(',')] if sm else []
        explicit = re.split(r'\b(?:DERIVE|INVERSE|UNIQUE|WHERE)\b', rest, flags=re.I)[0]
        attrs = []
        for d in explicit.split(';'):
            if ':' in d:
                for a in d.split(':')[0].split(','):
                    a = a.strip().lower()
                    if a and re.fullmatch(r'[a-z][a-z0-9_]*', a):
                        attrs.append(a)
        redecl = re.findall(r'SELF\\([A-Za-z0-9_]+)\.([A-Za-z0-9_]+)\s*:', rest)
        ents[name] = {'bases': supers, 'own': attrs, 'redecl': [(a.lower(), b.lower()) for a, b in redecl]}
    # inherited-then-own order
    def order(n, seen):
        for s in ents[n]['bases']:
            if s in ents:
                order(s, seen)
        if n not in seen:
            seen.append(n)
        return seen
    out = {}
    for n in ents:
        init = []
        for k in order(n, []):
            init += ents[k]['own']
        out[n] = {'bases': ents[n]['bases'], 'init': init}
    return out


def run_prog(job):
    name, text, schema_names = job
    root = drv.scratch_dir('c18')
    try:
        src = os.path.join(root, 'in.exp')
        with open(src, 'w', encoding='latin1') as f:
            f.write(text)
        out = os.path.join(root, 'out')
        os.makedirs(out)
        rc, o, _ = common.run(['setarch', '-R', build.tool('exp2python'), src], cwd=out, timeout=300, merge=True)
        files = sorted(os.listdir(out))
        res = {'rc': rc, 'files': files, 'out': o[-300:].decode('latin1')}
        mods = [f[:-3] for f in files if f.endswith('.py')]
        if rc == 0 and mods:
            script = INSPECT % {'pkg': PYPKG, 'moddir': out, 'mods': mods}
            p = subprocess.run(['/usr/bin/python3', '-I', '-B', '-c', script], stdout=subprocess.PIPE, stderr=subprocess.PIPE, timeout=300, cwd=root,
                               env={'PATH': '/usr/bin:/bin', 'LC_ALL': 'C'})
            m = re.search(r'@@JSON@@(.*)', p.stdout.decode('latin1'))
            if m:
                res['mods'] = json.loads(m.group(1))
            else:
                res['inspect_error'] = (p.stderr or p.stdout)[-400:].decode('latin1')
        return res
    finally:
        shutil.rmtree(root, ignore_errors=True)


def order_class(observed, ents, declared=None):
    """'order:by-depth' when the observed base classes are sorted by the length of their own supertype chain, longest first (the generator's rule)"""
    dep = {}

    def depth(n):
        n0 = n if n in ents else n.rstrip('_')
        if n0 not in dep:
            sup = ents.get(n0, {}).get('bases', [])
            dep[n0] = 0 if not sup else 1 + max(depth(x) for x in sup)
        return dep[n0]
    ds = [depth(b) for b in observed]
    if declared is not None:
        # the rule, exactly: the declared list, stably sorted by depth, deepest first
        want = sorted(declared, key=lambda b: -depth(b))
        return 'order:by-depth' if list(observed) == want else 'order:other'
    return 'order:by-depth' if ds == sorted(ds, reverse=True) else 'order:other'


def norm_param(p):
    p = re.sub(r'^inherited\d+__', '', p)
    return p


def judge(name, text, schema_names, exp_ents, exp_types, res):
    out = []
    fam = name.split('/')[0]
    if res['rc'] != 0:
        return [('generator-exit/%s/%s' % (res['rc'], fam), 'exp2python exits %s on an accepted schema: %s' % (res['rc'], res['out'][-160:]))]
    want_mods = sorted(s.lower() + '.py' for s in schema_names)
    got_mods = sorted(f for f in res['files'] if f.endswith('.py'))
    if got_mods != want_mods:
        # what went wrong names the defect, not the family the schema came from
        if any(re.fullmatch(r'(.+)_\d+\.py', f) and re.fullmatch(r'(.+)_\d+\.py', f).group(1) + '.py' in want_mods for f in got_mods):
            shape = 'multi-pass-suffix-modules/%s' % ('multi-schema-file' if len(schema_names) > 1 else 'single-schema-file')
        elif not got_mods:
            shape = 'no-module'
        else:
            shape = 'missing' if set(got_mods) < set(want_mods) else 'other'
        out.append(('module-set/%s' % shape, 'modules written %s, schemas %s' % (res['files'], want_mods)))
    if 'inspect_error' in res:
        return out + [('inspect-failed/%s' % fam, res['inspect_error'][-200:])]
    classes = {}
    others = {}
    for mod, d in res.get('mods', {}).items():
        if 'compile_error' in d:
            out.append(('does-not-compile/%s' % '_'.join(name.replace('/', '_').split('_')[:2]), 'module %s does not compile: %s' % (mod, d['compile_error'])))
            continue
        if 'import_error' in d:
            ek = '_'.join(name.replace('/', '_').split('_')[:3])
            mname = re.search(r"NameError: name '(\w+)' is not defined", d['import_error'])
            if mname and len(schema_names) > 1:
                # a name declared in ANOTHER schema of the file and interfaced into this one
                other = re.sub(r'(?is)SCHEMA\s+%s\s*;.*?END_SCHEMA\s*;' % re.escape(mod), '', text)
                if re.search(r'(?i)\b(ENTITY|TYPE)\s+%s\b' % re.escape(mname.group(1).rstrip('_')), other):
                    ek = 'interfaced-name-not-imported'
            out.append(('does-not-import/%s/%s' % (re.sub(r'[^A-Za-z]+', '_', d['import_error'].split(':')[0]), ek), 'module %s does not import: %s' % (mod, d['import_error'])))
            continue
        classes.update(d['classes'])
        others.update(d['others'])
    if any(k[0].startswith('does-not') for k in out):
        return out
    kw = lambda n: n + '_' if (n in PYKW or (n in PYBUILTINS and n + '_' in classes)) else n
    for en, e in exp_ents.items():
        c = classes.get(kw(en))
        if c is None:
            out.append(('entity-class-missing/%s' % fam, 'no class for entity %s' % en))
            continue
        wb = [kw(b) for b in e['bases']] or ['BaseEntityClass']
        if c['bases'] != wb:
            cls = 'set'
            if sorted(c['bases']) == sorted(wb):
                # the generator sorts the supertypes by the length of their own supertype chain (shallow first) to get a consistent MRO: an order
                # that follows this rule is the known deviation from "declaration order", any other order is something else
                cls = order_class(c['bases'], exp_ents, wb)
            out.append(('bases/%s' % cls, 'class %s has bases %s, supertypes are %s' % (en, c['bases'], wb)))
        got = [norm_param(p) for p in c['init']]
        if not c.get('own_init') and not e['init']:
            got = []      # no attributes: the constructor of the run-time base class is inherited
        want = [a if a not in PYKW else a + '_' for a in e['init']]
        if [g.rstrip('_') for g in got] == [w.rstrip('_') for w in want]:
            got = want
        if got != want and got != e['init']:
            # what exactly is wrong decides the finding: repeated names (diamond paths), names that are not explicit attributes at all, missing ones
            extra = [g for g in got if g not in want and g.rstrip('_') not in [w.rstrip('_') for w in want]]
            missing = [w for w in want if w not in got]
            if sorted(got) == sorted(want):
                cls = 'order'
            elif not extra and not missing and len(got) > len(want):
                cls = 'duplicates'
            elif extra:
                cls = 'extra:' + ('inverse' if any(x in e.get('inverse_names', ()) for x in extra) else ('derived' if any(x in e.get('derived_names', ()) for x in extra) else 'other'))
            else:
                cls = 'missing'
            out.append(('constructor-parameters/%s' % cls, 'class %s: __init__(%s), Part 21 order of the explicit attributes is (%s)' % (en, ', '.join(c['init']), ', '.join(e['init']))))
    for tn, t in (exp_types or {}).items():
        tn0 = tn
        tn = kw(tn)
        if t['kind'] == 'class':
            c = classes.get(tn)
            al = others.get(tn)
            if c is None and al is not None and al.get('kind') in ('alias', 'ENUMERATION', 'SELECT', 'LIST', 'SET', 'BAG', 'ARRAY'):
                base = t['base'].lower()
                ok = (al.get('alias_of') or '').lower() in (base, kw(base), {'boolean': 'bool', 'integer': 'int', 'real': 'float', 'string': 'str'}.get(base, base)) or al.get('kind') != 'alias'
                if not ok:
                    out.append(('type-underlying/alias', 'type %s is an alias of %s, declared underlying type %s' % (tn, al.get('alias_of'), t['base'])))
                continue
            if c is None:
                out.append(('type-definition-missing/defined', 'no definition for defined type %s' % tn))
            elif c['bases'] != [t['base']] and c['bases'] != [t['base'].upper()]:
                out.append(('type-underlying/defined', 'type %s derives from %s, declared underlying type %s' % (tn, c['bases'], t['base'])))
            continue
        o = others.get(tn)
        if o is None:
            out.append(('type-definition-missing/%s' % t['kind'].lower(), 'no definition for %s type %s' % (t['kind'], tn)))
            continue
        if o['kind'] != t['kind']:
            out.append(('type-kind/%s' % t['kind'].lower(), 'type %s is a %s, declared %s' % (tn, o['kind'], t['kind'])))
            continue
        nb = lambda x: x[:-1] if (x.endswith('_') and x[:-1] in PYBUILTINS and x[:-1] not in PYKW) else x      # a builtin's name may or may not be escaped
        if t['kind'] == 'ENUMERATION' and sorted(nb(x) for x in o['items']) != sorted((i + '_' if i in PYKW else i) for i in t['items']):      # (an item named like a keyword gets the underscore too)
            out.append(('enumeration-items', 'type %s has items %s, declared %s' % (tn, o['items'], t['items'])))
        if t['kind'] == 'SELECT' and sorted(str(x).lower().rstrip('_') for x in o['members']) != sorted(m.rstrip('_') for m in t['members']):
            out.append(('select-members', 'type %s has members %s, declared %s' % (tn, o['members'], t['members'])))
        if t['kind'] == 'SELECT' and o.get('unresolved'):
            out.append(('select-member-unresolved', 'type %s lists %s, which the module does not define (escaped names must be used consistently)' % (tn, o['unresolved'])))
        if t['kind'] in ('LIST', 'SET', 'BAG', 'ARRAY'):
            if (o['b1'], o['b2']) != (t['b1'] if t['b1'] is not None else 0, t['b2']):
                out.append(('aggregate-bounds/%s' % t['kind'].lower(), 'type %s has bounds [%s:%s], declared [%s:%s]' % (tn, o['b1'], o['b2'], t['b1'], t['b2'])))
    return out


# names of Python builtins may be escaped the same way (the generator does it for some of them, e.g. 'property'); whether it must is decided by the import test
PYBUILTINS = set(n.lower() for n in dir(__import__('builtins')))
PYKW = {'class', 'def', 'del', 'assert', 'async', 'await', 'break', 'continue', 'elif', 'except', 'finally', 'global', 'import', 'is', 'lambda', 'nonlocal', 'pass', 'raise', 'try', 'yield',
        'none', 'true', 'false'}


def family_N():
    """identifiers that are Python keywords or builtins (legal EXPRESS identifiers)"""
    S, N, A = smodel.Simple, smodel.Named, smodel.Aggr
    out = []
    kws = ['class', 'def', 'del', 'assert', 'async', 'await', 'break', 'continue', 'elif', 'except', 'finally', 'global', 'import', 'is', 'lambda', 'nonlocal', 'pass', 'raise', 'try', 'yield']
    builtins_ = ['id', 'str', 'int', 'float', 'object', 'print', 'len', 'dict', 'property', 'super', 'sys', 'none', 'schema_scope', 'schema_name']
    # attribute names
    sch = smodel.Schema('n_attr_kw', [], [smodel.Entity('holder', [smodel.Attr(k, S('INTEGER')) for k in kws + builtins_])])
    out.append(sch)
    for k in kws + builtins_[:9]:
        out.append(smodel.Schema('n_ent_' + k, [], [smodel.Entity(k, [smodel.Attr('v', S('INTEGER'))]), smodel.Entity('sub_' + k, [smodel.Attr('w', S('REAL'))], supers=[k])]))
    for k in kws + builtins_[:9]:
        out.append(smodel.Schema('n_type_' + k, [smodel.TypeDecl(k, S('INTEGER')), smodel.TypeDecl('e_' + k, ('enum', [k + '_a', k, 'b']))],
                                 [smodel.Entity('uses', [smodel.Attr('v', N(k)), smodel.Attr('w', N('e_' + k))])]))
    return out


def family_F(tier):
    """feature interactions: INVERSE / DERIVE attributes declared in a (direct, transitive, second) supertype of an entity with own attributes;
    chains of defined types of length 3-4 under every permutation of their names (the generator orders classes by walking a hash table)"""
    import itertools
    S, N, A = smodel.Simple, smodel.Named, smodel.Aggr
    out = []
    I, St = S('INTEGER'), S('STRING')
    out.append(smodel.Schema('n_inv_super', [], [
        smodel.Entity('ctx', [smodel.Attr('ident', I), smodel.Attr('kind', St)], inverse=[smodel.Inverse('items', 'item', 'c', 'SET', 0, None)]),
        smodel.Entity('item', [smodel.Attr('c', N('ctx')), smodel.Attr('nm', St)]),
        smodel.Entity('gctx', [smodel.Attr('dimension', I)], supers=['ctx']),
        smodel.Entity('ggctx', [smodel.Attr('units', St)], supers=['gctx']),
        smodel.Entity('other', [smodel.Attr('o1', I)], inverse=[smodel.Inverse('single', 'item2', 'o')]),
        smodel.Entity('item2', [smodel.Attr('o', N('other'))]),
        smodel.Entity('both', [smodel.Attr('b1', St)], supers=['gctx', 'other']),
        smodel.Entity('subitem', [smodel.Attr('extra', I)], supers=['item']),
    ]))
    out.append(smodel.Schema('n_der_super', [], [
        smodel.Entity('box', [smodel.Attr('w', S('REAL')), smodel.Attr('h', S('REAL'))], derived=[smodel.Derived('area', S('REAL'), 'w * h')]),
        smodel.Entity('cube', [smodel.Attr('d', S('REAL'))], supers=['box'], derived=[smodel.Derived('vol', S('REAL'), 'w * h * d')]),
        smodel.Entity('lcube', [smodel.Attr('label', St)], supers=['cube']),
    ]))
    triples = [('cnt', 'small_cnt', 'tiny_cnt'), ('label', 'short_label', 'tag'), ('t1', 't2', 't3'), ('aa', 'bb', 'cc'), ('length_measure', 'positive_length_measure', 'tolerance_length_measure')]
    quads = [('q1', 'q2', 'q3', 'q4'), ('alpha', 'beta', 'gamma', 'delta')]
    k = 0
    for names in triples + (quads if tier == 'thorough' else [quads[0]]):
        perms = list(itertools.permutations(names))
        if tier == 'quick' and len(names) == 4:
            perms = perms[::5]
        for perm in perms:
            types = [smodel.TypeDecl(perm[0], I)] + [smodel.TypeDecl(perm[i], N(perm[i - 1])) for i in range(1, len(perm))]
            for order in (types, list(reversed(types))):
                out.append(smodel.Schema('n_chain_%d' % k, list(order), [smodel.Entity('uses', [smodel.Attr('v', N(perm[-1])), smodel.Attr('u', N(perm[0]))])]))
                k += 1
    # an entity whose two supertypes have supertype chains of the same length, one of them the bottom of a diamond
    one = lambda n, sup=(): smodel.Entity(n, [smodel.Attr('a_' + n, I)], supers=list(sup))
    out.append(smodel.Schema('n_stacked_mi', [], [one('r'), one('p', ['r']), one('q', ['r']), one('y', ['p', 'q']), one('xpp'), one('xp', ['xpp']), one('x', ['xp']),
                                                   one('e', ['x', 'y']), one('f', ['y', 'x']), one('r2'), one('q2', ['r2']), one('y2', ['p', 'q2']), one('g', ['x', 'y2'])]))
    out.append(smodel.Schema('n_sel_kw', [smodel.TypeDecl('pick', ('select', ['class', 'grp'])), smodel.TypeDecl('import', ('select', ['grp', 'colour'])),
                                          smodel.TypeDecl('colour', ('enum', ['red', 'green'])), smodel.TypeDecl('lambda', ('select', ['class', 'pass']))],
                             [smodel.Entity('class', [smodel.Attr('c1', I)]), smodel.Entity('grp', [smodel.Attr('g1', I)]), smodel.Entity('pass', [smodel.Attr('p1', I)]),
                              smodel.Entity('assignment', [smodel.Attr('item', N('pick')), smodel.Attr('what', N('import')), smodel.Attr('how', N('lambda'))])]))
    # four and five direct supertypes of different depths, in every rotation of the list (the generator sorts the bases)
    import itertools as _it
    sup4 = ['named', 'priced', 'dated', 'engine']           # engine is the only one with a supertype of its own
    for k4, perm4 in enumerate(_it.permutations(sup4) if tier == 'thorough' else [sup4, sup4[::-1], ['engine', 'named', 'priced', 'dated'], ['named', 'engine', 'priced', 'dated'], ['named', 'priced', 'engine', 'dated']]):
        out.append(smodel.Schema('n_sup4_%d' % k4, [], [one('machine'), one('named'), one('priced'), one('dated'), one('engine', ['machine']), one('car', list(perm4)), one('moped', list(perm4)[:3])]))
    out.append(smodel.Schema('n_sup5', [], [one('m0'), one('m1', ['m0']), one('m2', ['m1']), one('s1'), one('s2'), one('s3'), one('w5', ['s1', 's2', 'm2', 's3', 'm1']), one('v5', ['m2', 's1', 'm1', 's2', 's3'])]))
    sys.path.insert(0, '/verif/checks')
    import c02
    mi = lambda sup: any(len(sup[i]) > 1 and any(len(sup[j]) > 1 for j in sup[i][1:]) for i in range(len(sup)))
    out += c02.family_D(4, 'n_dag4')
    out += c02.family_D(5, 'n_dag5q' if tier == 'quick' else 'n_dag5', only=(lambda sup: mi(sup) or mi(tuple(tuple(reversed(x)) for x in sup))) if tier == 'quick' else None)
    return out


def programs(tier):
    progs = []
    fk = smodel.family_K('fam_k', pairs=[('inte', 'stri'), ('ref', 'list_int'), ('enum', 'seldef')])
    fi = smodel.family_I('fam_i')
    for fam in [fk, fi] + family_N() + family_F(tier):
        ee, tt = expected(fam)
        progs.append((fam.name, fam.express(), [fam.name], ee, tt))
    # unpacked: every entity of family I with the declarations it needs is already small; K kinds one by one (thorough)
    if tier == 'thorough':
        for kid, t in smodel.kinds():
            f1 = smodel.family_K('fam_k1_' + kid, pairs=[], only=[kid])
            ee, tt = expected(f1)
            progs.append((f1.name, f1.express(), [f1.name], ee, tt))
    for name, text in gfam.valid_schemas(tier, with_models=False):
        snames = re.findall(r'(?im)^SCHEMA\s+([A-Za-z][A-Za-z0-9_]*)', text)
        progs.append(('g/' + name, text, snames, text_expectation(text), None))
    # shapes whose handling depends on the order in which the generator meets the declarations (shared with C17): one module per schema, whatever the names
    import c17
    for name, text in c17.order_dependent(tier):
        snames = re.findall(r'(?im)^SCHEMA\s+([A-Za-z][A-Za-z0-9_]*)', text)
        progs.append(('g/' + name, text, snames, text_expectation(text), None))
    for n, p in gfam.shipped():
        if 'unitary_schemas' in n or tier == 'thorough':
            text = open(p, encoding='latin1').read()
            snames = re.findall(r'(?im)^\s*SCHEMA\s+([A-Za-z][A-Za-z0-9_]*)', re.sub(r'\(\*.*?\*\)', ' ', text, flags=re.S))
            progs.append(('shipped/' + n, text, snames, text_expectation(text), None))
    return progs


def replay(path):
    obj = json.load(open(path))
    c = obj['case']
    progs = {p[0]: p for p in programs('thorough')}
    p = progs.get(c['name'])
    if p is None:
        print('unknown program', c['name'])
        return 2
    res = run_prog((p[0], p[1], p[2]))
    v = judge(p[0], p[1], p[2], p[3], p[4], res)
    print(c['name'], 'rc', res['rc'], res.get('files'))
    print('verdict:', v[:12])
    return 1 if v else 0


def main():
    args = common.parse_args(sys.argv[1:])
    if args.replay:
        sys.exit(replay(args.replay))
    chk = common.Check(PID, args.tier, deadline_s=args.deadline)
    build.ensure('plain')
    chk.rule = ('programs: packed kind family, inheritance family, Python-keyword/builtin naming family (attributes, entities, types), the generated text family, shipped unitary schemas '
                '(thorough: one schema per attribute kind, all shipped); exp2python, then py_compile + import + inspect in a fresh `python3 -I` against the bundled package; expected '
                'classes, bases and constructor parameters come from the abstract schema model (or, for text schemas, from a small declaration reader); state = schema')
    chk.assumptions = ['enumeration items and select members are compared as sets', 'constructor parameters are compared after stripping the generator\'s "inheritedN__" prefix and the keyword suffix "_"',
                       'for text-only schemas redeclared attributes are not modelled: entities with SELF\\\\ redeclarations are compared on bases only']
    progs = programs(args.tier)
    results = common.pmap(run_prog, [(p[0], p[1], p[2]) for p in progs], chunksize=1)
    for p, res in zip(progs, results):
        name, text, snames, ee, tt = p
        chk.count(states=1, transitions=2)
        chk.cls(name.split('/')[0] if '/' in name else re.sub(r'_.*', '', name))
        if tt is None:
            # text expectation does not model redeclared attributes: drop those entities' init expectation
            if 'SELF\\' in text:
                for en in list(ee):
                    ee[en] = {'bases': ee[en]['bases'], 'init': None}
        v = []
        try:
            exp2 = {k: d for k, d in ee.items() if d['init'] is not None}
            only_bases = {k: d for k, d in ee.items() if d['init'] is None}
            v = judge(name, text, snames, exp2, tt, res)
            if not any(k[0].startswith(('does-not', 'generator-exit', 'inspect')) for k in v):
                classes = {}
                for mod, d in res.get('mods', {}).items():
                    classes.update(d.get('classes', {}))
                kw = lambda n: n + '_' if (n in PYKW or (n in PYBUILTINS and n + '_' in classes)) else n       # as in judge(): a Python keyword cannot name a class
                for en, e in only_bases.items():
                    c = classes.get(kw(en))
                    wb = [kw(b) for b in e['bases']]
                    if c is None:
                        v.append(('entity-class-missing/%s' % name.split('/')[0], 'no class for entity %s' % en))
                    elif c['bases'] != (wb or ['BaseEntityClass']):
                        v.append(('bases/%s' % (order_class(c['bases'], ee, wb) if sorted(c['bases']) == sorted(wb) else 'set'), 'class %s has bases %s, supertypes are %s' % (en, c['bases'], wb)))
        except Exception as ex:
            chk.harness_error('judge failed on %s: %r' % (name, ex))
            continue
        if not v:
            chk.outcome('faithful')
            chk.sample({'schema': name, 'classes': sum(len(d.get('classes', {})) for d in res.get('mods', {}).values())}, maxn=8)
        for kp, what in v:
            chk.outcome(kp.split('/')[0])
            chk.violation('%s/%s' % (PID, kp), '%s: %s' % (name, what), {'name': name})
    chk.bounds = {'programs': len(progs)}
    if chk.outcomes.get('faithful', 0) == 0:
        chk.harness_error('vacuous: %s' % dict(chk.outcomes))
    sys.exit(chk.finish())


if __name__ == '__main__':
    main()
