"""Running the four EXPRESS tools (built from the working tree) in fresh empty directories."""
import os, shutil, re, hashlib
from . import common, build, drv

TOOLS = ['check-express', 'exppp', 'exp2cxx', 'exp2python']
ERR_RE = re.compile(rb'ERROR PE\d*|--ERROR')
WARN_RE = re.compile(rb'WARNING PW\d*|--WARNING')
SUCCESS_RE = re.compile(rb'No errors in input|Finished writing files|Writing python module\.\.\.Done|Done\.')


class Run:
    __slots__ = ('tool', 'rc', 'out', 'files', 'dir', 'errors', 'warnings', 'success_text', 'san')

    def diag_lines(self):
        return [l for l in self.out.split(b'\n') if ERR_RE.search(l) or WARN_RE.search(l)]


def run_tool(tool, text, variant='plain', args=(), timeout=60, keep=False, fname='in.exp', env=None, cwd_sub=None, aslr=False, extra_files=None):
    """text: str or bytes (EXPRESS source) or None with args naming an existing file"""
    d = drv.scratch_dir('exp')
    try:
        wd = d
        src = None
        if text is not None:
            src = os.path.join(d, fname)
            with open(src, 'wb') as f:
                f.write(text if isinstance(text, bytes) else text.encode('latin1'))
        outdir = os.path.join(d, 'out')
        os.makedirs(outdir)
        exe = build.tool(tool, variant)
        e = dict(common.ASAN_ENV)
        if env:
            e.update(env)
        if extra_files:
            # further schema files of the same "library": next to the input, found through EXPRESS_PATH
            for fn, tx in extra_files.items():
                with open(os.path.join(d, fn), 'wb') as f:
                    f.write(tx if isinstance(tx, bytes) else tx.encode('latin1'))
            e['EXPRESS_PATH'] = d
        cmd = ([] if aslr else ['setarch', '-R']) + [exe] + list(args)   # fixed address-space layout unless the configuration asks otherwise
        if tool == 'exppp':
            cmd += ['-o', os.path.join(outdir, 'pp.exp')] if '-o' not in args else []
        if src:
            cmd.append(src)
        rc, out, _ = common.run(cmd, timeout=timeout, env=e, cwd=outdir, merge=True)
        r = Run()
        r.tool, r.rc, r.out = tool, rc, out
        r.files = {}
        for root, dirs, files in os.walk(outdir):
            for fn in files:
                p = os.path.join(root, fn)
                try:
                    r.files[os.path.relpath(p, outdir)] = os.path.getsize(p)
                except OSError:
                    pass
        r.errors = len(ERR_RE.findall(out))
        r.warnings = len(WARN_RE.findall(out))
        r.success_text = bool(SUCCESS_RE.search(out))
        r.san = common.sanitizer_key(out)
        r.dir = d if keep else None
        return r
    finally:
        if not keep:
            shutil.rmtree(d, ignore_errors=True)


def tree_digest(root):
    """{relative path: sha256} of every file under root"""
    out = {}
    for r, dirs, files in os.walk(root):
        dirs.sort()
        for fn in sorted(files):
            p = os.path.join(r, fn)
            with open(p, 'rb') as f:
                out[os.path.relpath(p, root)] = hashlib.sha256(f.read()).hexdigest()
    return out


def crash_site(tool, text, args=(), timeout=120, fname='in.exp'):
    s = _crash_site(tool, text, args, timeout, fname, 'plain')
    if s == 'unknown':
        s = _crash_site(tool, text, args, timeout, fname, 'san')     # larger frames: the instrumented build may be the only one that overflows
    return s


def _crash_site(tool, text, args, timeout, fname, variant):
    """where a signal that the sanitizer does not explain comes from: the plain build under gdb, innermost function of the
    repository in the backtrace - 'recursion:<fn>' when one function fills the top of the stack.  Returns 'unknown' when gdb sees no signal."""
    import collections
    d = drv.scratch_dir('gdb')
    try:
        src = os.path.join(d, fname)
        with open(src, 'wb') as f:
            f.write(text if isinstance(text, bytes) else text.encode('latin1'))
        outdir = os.path.join(d, 'out')
        os.makedirs(outdir)
        exe = build.tool(tool, variant)
        cmd = ['gdb', '-q', '-batch', '-nx', '-ex', 'set disable-randomization on', '-ex', 'set environment ASAN_OPTIONS=handle_segv=0:handle_abort=0:detect_leaks=0',
               '-ex', 'run', '-ex', 'bt 40', '--args', exe] + list(args)
        if tool == 'exppp' and '-o' not in args:
            cmd += ['-o', os.path.join(outdir, 'pp.exp')]
        cmd.append(src)
        rc, out, _ = common.run(cmd, timeout=timeout, cwd=outdir, merge=True)
        txt = out.decode('latin1')
        if 'received signal' not in txt:
            return 'unknown'
        frames = re.findall(r'^#\d+\s+(?:0x[0-9a-f]+ in )?([A-Za-z_][\w:~]*) \(.*?\) at (' + re.escape(common.REPO) + r'/[^\s:]+):\d+', txt, re.M)
        if not frames:
            return 'unknown'
        names = [f for f, _ in frames]
        cnt = collections.Counter(names[:30])
        rec = sorted(n for n, c in cnt.items() if c >= 6)
        if rec:
            # mutually recursive functions: name the alphabetically first, whichever happens to be on top
            return 'recursion:%s@%s' % (rec[0], os.path.basename(dict(frames)[rec[0]]))
        site = '%s@%s' % (frames[0][0], os.path.basename(frames[0][1]))
        if frames[0][0].startswith('ERROR'):
            # the front end aborts on purpose after some messages: which one
            m = re.findall(r'(?:ERROR|WARNING) (P[EW]\d+)', txt)
            if m:
                site += ':' + m[-1]
        return site
    finally:
        shutil.rmtree(d, ignore_errors=True)
