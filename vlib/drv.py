"""Python side of the C++ drivers: one long-lived process, commands on stdin, answers on fd 3."""
import os, subprocess, tempfile, select, time, signal, shutil
from . import common, build


def scratch_dir(tag='w'):
    base = '/dev/shm' if os.path.isdir('/dev/shm') and os.access('/dev/shm', os.W_OK) else os.path.join(common.BUILD, 'tmp')
    os.makedirs(base, exist_ok=True)
    return tempfile.mkdtemp(prefix='verif-%s-' % tag, dir=base)


class Crash(Exception):
    """Driver process died (or hung) while executing a command."""

    def __init__(self, cmd, rc, log, hang=False):
        Exception.__init__(self, 'driver died rc=%s on %r' % (rc, cmd[:80]))
        self.cmd, self.rc, self.log, self.hang = cmd, rc, log, hang

    def key(self):
        """(class, site) for the finding key."""
        if self.hang:
            return ('hang', 'timeout')
        k = common.sanitizer_key(self.log)
        if k:
            return k
        if self.rc is not None and self.rc < 0:
            try:
                name = signal.Signals(-self.rc).name
            except ValueError:
                name = 'SIG%d' % -self.rc
            site = 'unknown'
            if b'Assertion' in self.log:
                import re
                m = re.search(rb'([\w./-]+):(\d+): [^\n]*Assertion', self.log)
                if m:
                    site = 'assert@' + os.path.basename(m.group(1).decode()) + ':' + m.group(2).decode()
            if b'terminate called' in self.log:
                site = 'terminate:' + self.log.split(b'terminate called')[1][:80].decode('latin1').strip().replace('\n', ' ')
            return (name, site)
        return ('exit%s' % self.rc, 'unknown')


class Driver:
    def __init__(self, name, lib=None, variant='plain', timeout=20, lazy=False, args=()):
        self.exe = build.driver(name, variant, lazy=lazy)
        self.lib = lib
        self.variant = variant
        self.timeout = timeout
        self.args = list(args)
        self.p = None
        self.dir = scratch_dir(name)
        self.log = os.path.join(self.dir, 'log')
        self.ncmd = 0

    def start(self):
        r, w = os.pipe()
        env = dict(common.BASE_ENV)
        env.update(common.ASAN_ENV)
        so = self.lib.so if self.lib is not None else '-'

        def pre():
            os.dup2(w, 3)
        self.p = subprocess.Popen([self.exe, so, self.log] + self.args, stdin=subprocess.PIPE, stdout=subprocess.DEVNULL,
                                  stderr=subprocess.DEVNULL, env=env, preexec_fn=pre, close_fds=False, cwd=self.dir)
        os.close(w)
        self.r = os.fdopen(r, 'rb', buffering=0)
        self.buf = b''
        self._read_answer('start')

    def _readlog(self):
        try:
            with open(self.log, 'rb') as f:
                return f.read()[-200000:]
        except OSError:
            return b''

    def _read_answer(self, cmd, timeout=None):
        deadline = time.time() + (timeout or self.timeout)
        lines = []
        while True:
            nl = self.buf.find(b'\n')
            if nl >= 0:
                line = self.buf[:nl]
                self.buf = self.buf[nl + 1:]
                if line == b'.':
                    return lines
                lines.append(line)
                continue
            left = deadline - time.time()
            if left <= 0:
                self.kill()
                raise Crash(cmd, None, self._readlog(), hang=True)
            rl, _, _ = select.select([self.r], [], [], left)
            if not rl:
                continue
            chunk = os.read(self.r.fileno(), 1 << 16)
            if not chunk:
                rc = self.p.wait()
                self.p = None
                raise Crash(cmd, rc, self._readlog())
            self.buf += chunk

    def cmd(self, line, timeout=None):
        if self.p is None:
            self.start()
        self.ncmd += 1
        try:
            self.p.stdin.write(line.encode('latin1') + b'\n')
            self.p.stdin.flush()
        except (BrokenPipeError, OSError):
            rc = self.p.wait()
            self.p = None
            raise Crash(line, rc, self._readlog())
        return self._read_answer(line, timeout)

    def rss_kb(self):
        try:
            with open('/proc/%d/statm' % self.p.pid) as f:
                return int(f.read().split()[1]) * 4
        except Exception:
            return 0

    def recycle_if_big(self, limit_kb=1200000):
        """restart the driver process when it has grown (the libraries leak by design, and ASan's quarantine adds to it):
        sixteen of them once exhausted the machine and the kernel's OOM killer produced spurious SIGKILLs"""
        if self.p is not None and self.rss_kb() > limit_kb:
            self.close_proc()
            return True
        return False

    def close_proc(self):
        if self.p is not None:
            try:
                self.p.stdin.write(b'quit\n')
                self.p.stdin.flush()
                self.p.wait(timeout=5)
            except Exception:
                self.kill()
            self.p = None
        try:
            self.r.close()
        except Exception:
            pass

    def kill(self):
        if self.p is not None:
            try:
                self.p.kill()
                self.p.wait()
            except Exception:
                pass
            self.p = None
        try:
            self.r.close()
        except Exception:
            pass

    def close(self):
        if self.p is not None:
            try:
                self.p.stdin.write(b'quit\n')
                self.p.stdin.flush()
                self.p.wait(timeout=5)
            except Exception:
                self.kill()
            self.p = None
        try:
            self.r.close()
        except Exception:
            pass
        shutil.rmtree(self.dir, ignore_errors=True)

    def __enter__(self):
        return self

    def __exit__(self, *a):
        self.close()


def parse_dump(lines):
    """-> list of (id, state, ENTITY, text_bytes)"""
    out = []
    for l in lines:
        if l.startswith(b'I '):
            f = l.split(b' ')
            out.append((int(f[1]), f[2].decode(), f[3].decode(), bytes.fromhex(f[4].decode()) if len(f) > 4 else b''))
    return out


def kv(line):
    f = line.decode().split()
    return {f[i]: int(f[i + 1]) for i in range(0, len(f) - 1, 2)}
