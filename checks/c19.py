#!/usr/bin/python3
"""C19 -- the Python runtime's ARRAY / LIST / BAG / SET containers versus EXPRESS semantics.

Technique: explicit-state, breadth-first, bounded EXHAUSTIVE exploration of operation
histories on the REAL classes (package imported in place), every step compared with the
reference model in c19_model.py.  No random choice anywhere.

  construction space : kind x bound_1 x bound_2 (incl. None = unbounded) x UNIQUE x OPTIONAL
                       x base type, legal and illegal ones (the constructor is judged too)
  operation alphabet : x[i] = v, x[i] (ARRAY, LIST); add(v) (BAG, SET -- the package has no
                       remove, no LIST insert/append); the eight queries bound_1, bound_2,
                       LOBOUND, HIBOUND, LOINDEX, HIINDEX, SIZEOF, VALUE_UNIQUE (called through
                       stepcode.Builtin, which delegates to get_lobound ... get_value_unique)
  state              : (snapshot of every instance attribute of the real object, model state);
                       a state is re-created by replaying its history on a fresh object and the
                       snapshot is asserted identical to the one seen at discovery
  exploration        : every operation of the alphabet is applied in every distinct state of
                       depth < D; in states of depth D every read and query is still applied
                       (so the last accepted operation is always followed by a full comparison)

Tiers: quick = depth 6, LIST indices -1..5; thorough = depth 9, LIST indices -1..7; both use three
distinct legal values a, b, c, an equal-but-distinct 'a again', wrong-typed values and None.
A construction whose frontier becomes empty before the depth bound has a CLOSED state space
(the verdict then holds for histories of any length); the number of such constructions is reported.

Environment: VERIF_C19_PKG = directory that contains the `stepcode` package
(default /repo/src/exp2python/python); used for the mutation demonstration.
"""
import os, sys, json, time, traceback, collections

sys.dont_write_bytecode = True            # never drop __pycache__ into /repo
sys.path.insert(0, '/verif')
sys.path.insert(0, os.path.dirname(os.path.abspath(__file__)))
from vlib import common
import c19_model as M
from c19_model import LEGAL, ILLEGAL, UNJUDGED

PKG = os.environ.get('VERIF_C19_PKG', common.REPO + '/src/exp2python/python')
sys.path.insert(0, PKG)
from stepcode import SimpleDataTypes as SDT
from stepcode import ConstructedDataTypes as CDT
from stepcode import AggregationDataTypes as ADT
from stepcode import Builtin

for _m in (SDT, CDT, ADT, Builtin):
    if not os.path.realpath(_m.__file__).startswith(os.path.realpath(PKG) + os.sep):
        sys.stderr.write('HARNESS-ERROR C19: %s imported from %s, not from %s\n' % (_m.__name__, _m.__file__, PKG))
        sys.exit(2)

KINDS = ('ARRAY', 'LIST', 'BAG', 'SET')
B1S = (-1, 0, 1, 2, 3)
B2S = (0, 1, 2, 3, 4, None)

# tier parameters (set in main, inherited by forked workers)
P = {'depth': 5, 'third_value': False, 'list_imax': 5, 'deadline_abs': None}


# ----------------------------------------------------------------------------- base types
class Base:
    """typedef/scope handed to the constructor + the value alphabet:
    name -> (object, value key, fault)."""

    def __init__(self, name, typedef, scope, values):
        self.name, self.typedef, self.scope = name, typedef, scope
        self.values = collections.OrderedDict(values)
        self.mvals = {k: (vk, fault) for k, (o, vk, fault) in self.values.items()}
        self.labels = {}            # id(obj) -> label for values compared by identity

    def vnames(self):
        if P['third_value']:
            return list(self.values)
        return [k for k in self.values if k != 'c']

    def classify(self, obj):
        """value key of an object read back from a container ('?' = none of ours)."""
        if obj is None:
            return None
        if id(obj) in self.labels:
            return self.labels[id(obj)]
        for k, (o, vk, fault) in self.values.items():
            if fault is None and id(o) not in self.labels and type(obj) is type(o) and obj == o:
                return vk
        return '?'


def _make_bases():
    I, S, R = SDT.INTEGER, SDT.STRING, SDT.REAL
    bases = collections.OrderedDict()

    def int_values():
        return [('a', (I(1), 'a', None)), ('b', (I(2), 'b', None)),
                ('a2', (I(1), 'a', None)),                    # equal value, distinct object
                ('c', (I(3), 'c', None)),
                ('w', (S('x'), None, 'wrong-type')),
                ('weq', (R(1.0), None, 'wrong-type-equal-to-a-legal-value')),   # 1.0 == 1, same hash
                ('none', (None, None, 'indeterminate'))]
    bases['INTEGER'] = Base('INTEGER', I, None, int_values())
    # base type given by NAME and resolved in a scope (BaseType.Type.get_type)
    bases['NAMED'] = Base('NAMED', 'INTEGER', SDT, int_values())
    bases['STRING'] = Base('STRING', S, None, [
        ('a', (S('p'), 'a', None)), ('b', (S('q'), 'b', None)), ('a2', (S('p'), 'a', None)),
        ('c', (S('r'), 'c', None)),
        ('w', (I(7), None, 'wrong-type')), ('none', (None, None, 'indeterminate'))])
    E = CDT.ENUMERATION('colour', 'red green blue')
    bases['ENUM'] = Base('ENUM', E, None, [
        ('a', (E.red, 'a', None)), ('b', (E.green, 'b', None)), ('a2', (E.red, 'a', None)),
        ('c', (E.blue, 'c', None)),
        ('w', (S('red'), None, 'wrong-type')), ('none', (None, None, 'indeterminate'))])
    # nested: ARRAY [1:2] OF INTEGER as element type.  a/b/c are distinct objects with distinct
    # contents, 'a again' is the same object, so instance equality and value equality coincide
    # (whether two distinct but equal-valued array objects are "duplicates" is not judged).
    def arr(lo, hi, t, *vals):
        x = ADT.ARRAY(lo, hi, t)
        for k, v in enumerate(vals):
            try:
                x[lo + k] = v       # contents only make a/b/c distinguishable by value; a package
            except Exception:       # under test that refuses this must not crash the harness
                pass
        return x
    A, Bb, C = arr(1, 2, I, I(1), I(1)), arr(1, 2, I, I(2), I(2)), arr(1, 2, I, I(3), I(3))
    WT = arr(1, 2, S, S('p'), S('p'))            # other base type
    WB = arr(1, 3, I, I(1), I(1), I(1))          # other bounds: ARRAY[1:3] is not ARRAY[1:2] (13.3.2)
    WS = arr(1, 2, SDT.NUMBER, I(1), I(1))       # base type NUMBER, of which INTEGER is a specialisation: an ARRAY OF NUMBER is not an ARRAY OF INTEGER
    nb = Base('NESTED', ADT.ARRAY(1, 2, I), None, [
        ('a', (A, 'a', None)), ('b', (Bb, 'b', None)), ('a2', (A, 'a', None)), ('c', (C, 'c', None)),
        ('w', (I(1), None, 'wrong-type')),
        ('wt', (WT, None, 'nested-array-of-other-base-type')),
        ('wb', (WB, None, 'nested-array-with-other-bounds')),
        ('ws', (WS, None, 'nested-array-of-a-generalisation-of-the-base-type')),
        ('none', (None, None, 'indeterminate'))])
    nb.labels = {id(A): 'a', id(Bb): 'b', id(C): 'c', id(WT): 'wt', id(WB): 'wb', id(WS): 'ws'}
    bases['NESTED'] = nb
    return bases


try:
    BASES = _make_bases()
except Exception:
    traceback.print_exc()
    sys.stderr.write('HARNESS-ERROR C19: cannot build the value alphabet\n')
    sys.exit(2)
BASE_NAMES = tuple(BASES)


# ----------------------------------------------------------------------------- real object
def build(cx):
    kind, b1, b2, unique, optional, bname = cx
    B = BASES[bname]
    if kind == 'ARRAY':
        return ADT.ARRAY(b1, b2, B.typedef, UNIQUE=unique, OPTIONAL=optional, scope=B.scope)
    if kind == 'LIST':
        return ADT.LIST(b1, b2, B.typedef, UNIQUE=unique, scope=B.scope)
    if kind == 'BAG':
        return ADT.BAG(b1, b2, B.typedef, scope=B.scope)
    return ADT.SET(b1, b2, B.typedef, scope=B.scope)


def cx_text(cx):
    kind, b1, b2, unique, optional, bname = cx
    s = '%s(%s,%s,%s' % (kind, b1, b2, bname)
    if kind in ('ARRAY', 'LIST') and unique:
        s += ',UNIQUE'
    if kind == 'ARRAY' and optional:
        s += ',OPTIONAL'
    return s + ')'


def op_text(op):
    if op[0] == 'set':
        return 'x[%d]=%s' % (op[1], op[2])
    if op[0] == 'get':
        return 'x[%d]' % op[1]
    if op[0] == 'add':
        return 'add(%s)' % op[1]
    return op[1] + '()'


QFUN = {
    'bound_1': lambda o: o.bound_1(), 'bound_2': lambda o: o.bound_2(),
    'get_lobound': Builtin.LOBOUND, 'get_hibound': Builtin.HIBOUND,
    'get_loindex': Builtin.LOINDEX, 'get_hiindex': Builtin.HIINDEX,
    'get_size': Builtin.SIZEOF, 'get_value_unique': Builtin.VALUE_UNIQUE,
}


def execute(obj, op, B):
    """Run one operation on the real object.  ('ok', result) or ('exc', ExcName, message)."""
    try:
        t = op[0]
        if t == 'set':
            obj[op[1]] = B.values[op[2]][0]
            return ('ok', None)
        if t == 'get':
            return ('ok', obj[op[1]])
        if t == 'add':
            return ('ok', obj.add(B.values[op[1]][0]))
        return ('ok', QFUN[op[1]](obj))
    except Exception as e:                      # "rejected" = an exception of any type
        return ('exc', type(e).__name__, str(e)[:120])


def vrepr(x, B):
    if x is None:
        return 'None'
    lab = B.labels.get(id(x))
    if lab is not None:
        return '@' + lab
    return type(x).__name__ + ':' + repr(x)


def snap(obj, B):
    """Every instance attribute of the real object (typedef/scope are constants)."""
    d = obj.__dict__
    out = []
    for k in sorted(d):
        if k == '_typedef' or k == '_scope':
            continue
        v = d[k]
        if k == '_container':
            r = [vrepr(x, B) for x in v]
            if isinstance(v, (set, frozenset)):
                r.sort()
            out.append((k, type(v).__name__, tuple(r)))
        else:
            out.append((k, repr(v)))
    return tuple(out)


def norm_query(name, r):
    if name == 'get_value_unique':
        if r is True:
            return 'T'
        if r is False:
            return 'F'
        if r is SDT.Unknown:
            return 'U'
        return 'other:' + type(r).__name__
    if r is None:
        return None
    if isinstance(r, int) and not isinstance(r, bool):
        return int(r)
    return 'other:' + type(r).__name__


LOGIC = {'T': 'TRUE', 'F': 'FALSE', 'U': 'UNKNOWN'}


def alphabet(cx):
    kind, b1, b2, unique, optional, bname = cx
    vn = BASES[bname].vnames()
    if kind == 'ARRAY':
        idx = list(range(b1 - 1, b2 + 2))
    elif kind == 'LIST':
        idx = list(range(-1, P['list_imax'] + 1))
    else:
        idx = []
    if kind in ('ARRAY', 'LIST'):
        muts = [('set', i, v) for i in idx for v in vn]
        reads = [('get', i) for i in idx]
    else:
        muts = [('add', v) for v in vn]
        reads = []
    return muts, reads + [('q', q) for q in M.QUERIES]


OPNAME = {'set': 'setitem', 'get': 'getitem', 'add': 'add'}


def key_prefix(cx):
    kind, b1, b2 = cx[0], cx[1], cx[2]
    if kind == 'ARRAY':
        return 'C19/ARRAY'
    return 'C19/%s/%s' % (kind, 'unbounded' if b2 is None else 'bounded')


def judge_step(cx, model, ms, op, res, B):
    """Compare one executed operation with the model.
    Returns (verdict, reason, violation or None, expected text, observed text);
    violation = (key, what-fragment)."""
    pre = key_prefix(cx)
    if op[0] == 'q':
        name = op[1]
        exp = model.expected_queries(ms)[name]
        if res[0] == 'exc':
            return (LEGAL, 'query', ('%s/%s/raised-%s' % (pre, name, res[1]), 'raised %s: %s' % (res[1], res[2])),
                    'one of %s' % sorted(map(str, exp)), 'raised ' + res[1])
        got = norm_query(name, res[1])
        otxt = repr(got)
        etxt = ' or '.join(sorted(repr(x) for x in exp))
        if got in exp:
            return (LEGAL, 'query', None, etxt, otxt)
        if name == 'get_value_unique':
            e1 = '-or-'.join(LOGIC[x] for x in sorted(exp))
            cls = 'expected-%s-got-%s' % (e1, LOGIC.get(got, 'other'))
        else:
            (e1,) = tuple(exp)
            if got is None:
                cls = 'expected-integer-got-None'
            elif e1 is None:
                cls = 'expected-None-got-integer'
            elif isinstance(got, str):
                cls = 'got-non-integer'
            else:
                cls = 'answer-too-large' if got > e1 else 'answer-too-small'
        return (LEGAL, 'query', ('%s/%s/%s' % (pre, name, cls), 'answered %s, model says %s' % (otxt, etxt)), etxt, otxt)

    verdict, reason, expect = model.judge(ms, op, B.mvals)
    opn = OPNAME[op[0]]
    acc = res[0] == 'ok'
    otxt = 'accepted' if acc else 'raised %s' % res[1]
    etxt = {LEGAL: 'accepted', ILLEGAL: 'rejected', UNJUDGED: 'not judged'}[verdict] + ' (' + reason + ')'
    viol = None
    if op[0] == 'get':
        if acc:
            got = B.classify(res[1])
            otxt = 'returned ' + ('None' if got is None else str(got))
        if verdict == LEGAL:
            want = None if expect[0] == 'indeterminate' else expect[1]
            etxt = 'returns %s (%s)' % (want, reason)
            if not acc:
                viol = ('%s/%s/%s/rejected-legal-%s' % (pre, opn, reason, res[1]), otxt + ': ' + res[2])
            elif got != want:
                viol = ('%s/%s/%s/wrong-value' % (pre, opn, reason), otxt)
        else:
            tolerate_none = expect is not None and expect[0] == 'none-tolerated'
            etxt = 'raises%s (%s)' % (' or returns None' if tolerate_none else '', reason)
            if acc and not (tolerate_none and got is None):
                viol = ('%s/%s/%s/accepted-illegal' % (pre, opn, reason), otxt)
        return (verdict, reason, viol, etxt, otxt)
    # set / add
    if acc and verdict == ILLEGAL:
        viol = ('%s/%s/%s/accepted-illegal' % (pre, opn, reason), 'accepted')
    elif not acc and verdict == LEGAL:
        viol = ('%s/%s/%s/rejected-legal-%s' % (pre, opn, reason, res[1]), otxt + ': ' + res[2])
    return (verdict, reason, viol, etxt, otxt)


def replay_obj(cx, hist, B):
    obj = build(cx)
    for op in hist:
        execute(obj, op, B)
    return obj


def case_dict(cx, hist, op):
    kind, b1, b2, unique, optional, bname = cx
    return {'kind': kind, 'bound_1': b1, 'bound_2': b2, 'unique': unique, 'optional': optional,
            'base': bname, 'ops': [list(o) for o in hist] + ([list(op)] if op else [])}


# ----------------------------------------------------------------------------- explorer
class Result:
    def __init__(self):
        self.states = 0
        self.transitions = 0
        self.outcomes = collections.Counter()
        self.classes = collections.Counter()
        self.acc = collections.Counter()
        self.rej = collections.Counter()
        self.viol = collections.OrderedDict()     # key -> [count, what, replay, nops]
        self.samples = []
        self.capped = False
        self.fixpoint = False
        self.levels = 0
        self.error = None
        self.pruned = 0
        self.unjudged = 0

    def violation(self, key, what, case):
        v = self.viol.get(key)
        if v is None:
            self.viol[key] = [1, what, case, len(case['ops'])]
        else:
            v[0] += 1


def explore(cx):
    R = Result()
    try:
        _explore(cx, R)
    except Exception:
        R.error = '%s: %s' % (cx_text(cx), traceback.format_exc()[-1500:])
    return R


def _tally(R, cx, op, verdict, reason, res):
    kind = cx[0]
    if op is None:
        oc, name = 'ctor', 'ctor'
    elif op[0] == 'q':
        oc, name = 'query', op[1]
    else:
        oc = name = OPNAME[op[0]]
    c = kind + '/' + oc
    if res[0] == 'ok':
        R.acc[c] += 1
        if oc == 'query':
            o = norm_query(op[1], res[1])
            R.outcomes['%s/%s=%s' % (kind, name, o if (o is None or isinstance(o, str)) else 'int')] += 1
        else:
            R.outcomes['%s/%s:accepted' % (kind, name)] += 1
    else:
        R.rej[c] += 1
        R.outcomes['%s/%s:%s' % (kind, name, res[1])] += 1
    if oc != 'query':
        R.classes['%s/%s/%s:%s' % (kind, oc, verdict, reason)] += 1
    else:
        R.classes['%s/query/%s' % (kind, name)] += 1
    if verdict == UNJUDGED:
        R.unjudged += 1


def _explore(cx, R):
    kind, b1, b2, unique, optional, bname = cx
    B = BASES[bname]
    D = P['depth']
    # ---- the constructor is an operation too
    verdict, reason = M.ctor_verdict(kind, b1, b2)
    try:
        obj = build(cx)
        res = ('ok', None)
    except Exception as e:
        res = ('exc', type(e).__name__, str(e)[:120])
    R.transitions += 1
    _tally(R, cx, None, verdict, reason, res)
    if res[0] == 'ok' and verdict == ILLEGAL:
        R.violation('C19/%s/ctor/%s/accepted-illegal' % (kind, reason),
                    '%s was constructed although EXPRESS forbids these bounds (%s)' % (cx_text(cx), reason),
                    case_dict(cx, (), None))
        return
    if res[0] == 'exc':
        if verdict == LEGAL:
            R.violation('C19/%s/ctor/%s/rejected-legal-%s' % (kind, reason, res[1]),
                        '%s is a legal EXPRESS type but the constructor raised %s: %s' % (cx_text(cx), res[1], res[2]),
                        case_dict(cx, (), None))
        return
    model = M.Model(kind, b1, b2, unique, optional)
    muts, obs = alphabet(cx)
    m0 = model.initial()
    s0 = snap(obj, B)
    seen = {(s0, m0)}
    frontier = [((), m0, s0)]
    R.states += 1
    for depth in range(D + 1):
        if not frontier:
            # no new state at this level: the reachable state space is closed, the result
            # holds for histories of ANY length for this construction
            R.fixpoint = True
            break
        nxt = []
        ops = obs + (muts if depth < D else [])
        for hist, ms, sn in frontier:
            if P['deadline_abs'] and time.time() > P['deadline_abs']:
                R.capped = True
                return
            obj = replay_obj(cx, hist, B)
            if snap(obj, B) != sn:
                raise AssertionError('non-deterministic replay: %s %s' % (cx_text(cx), hist))
            first_obs = []
            for op in ops:
                res = execute(obj, op, B)
                s2 = snap(obj, B)
                R.transitions += 1
                verdict, reason, viol, etxt, otxt = judge_step(cx, model, ms, op, res, B)
                _tally(R, cx, op, verdict, reason, res)
                if op[0] != 'set' and op[0] != 'add':
                    first_obs.append(otxt)
                if viol:
                    R.violation(viol[0], '%s after [%s]: %s expected %s, observed: %s' % (
                        cx_text(cx), '; '.join(op_text(o) for o in hist), op_text(op), etxt, viol[1]),
                        case_dict(cx, hist, op))
                elif len(R.samples) < 1 and depth == 2 and res[0] == 'ok' and op[0] != 'q':
                    R.samples.append({'case': cx_text(cx), 'history': [op_text(o) for o in hist],
                                      'op': op_text(op), 'expected': etxt, 'observed': otxt})
                changed = s2 != sn
                if op[0] in ('get', 'q'):
                    if changed:
                        R.violation('%s/%s/state-changed-by-%s' % (key_prefix(cx), OPNAME.get(op[0], op[1]),
                                                                   'read' if op[0] == 'get' else 'query'),
                                    '%s after [%s]: %s changed the container' % (
                                        cx_text(cx), '; '.join(op_text(o) for o in hist), op_text(op)),
                                    case_dict(cx, hist, op))
                    m2 = ms
                else:
                    if res[0] == 'ok':
                        if verdict == ILLEGAL:
                            # error state: not expanded (everything after an illegal accepted
                            # operation is outside the property's domain)
                            R.pruned += 1
                            obj = replay_obj(cx, hist, B)
                            continue
                        m2 = model.apply(ms, op, B.mvals)
                    else:
                        m2 = ms
                if changed or m2 != ms:
                    if depth < D and (s2, m2) not in seen:
                        seen.add((s2, m2))
                        R.states += 1
                        nxt.append((hist + (op,), m2, s2))
                    if changed:
                        obj = replay_obj(cx, hist, B)
            # determinism: the same history replayed once more on another fresh object gives
            # the same snapshot and the same public answers
            obj2 = replay_obj(cx, hist, B)
            if snap(obj2, B) != sn:
                raise AssertionError('non-deterministic replay (2): %s %s' % (cx_text(cx), hist))
            again = []
            for op in obs:
                r2 = execute(obj2, op, B)
                again.append(judge_step(cx, model, ms, op, r2, B)[4])
                if snap(obj2, B) != sn:          # a read/query that mutates: already reported above
                    obj2 = replay_obj(cx, hist, B)
            if again != first_obs:
                raise AssertionError('non-deterministic answers: %s %s: %s vs %s' % (cx_text(cx), hist, first_obs, again))
        R.levels = depth
        frontier = nxt


def constructions():
    out = []
    for kind in KINDS:
        for b1 in B1S:
            for b2 in B2S:
                for bname in BASE_NAMES:
                    uniq = (False, True) if kind in ('ARRAY', 'LIST') else (False,)
                    opts = (False, True) if kind == 'ARRAY' else (False,)
                    for u in uniq:
                        for o in opts:
                            out.append((kind, b1, b2, u, o, bname))
    # constructor-only extras: bounds that are not integers / indeterminate lower bound
    # (8.2.1 a, 8.2.2 a: shall evaluate to integer values; bound_1 never indeterminate)
    for kind in KINDS:
        for b1, b2 in ((None, 2), (None, None), (1.5, 3), (1, 2.5), ('1', 2), (0, '2')):
            out.append((kind, b1, b2, False, False, 'INTEGER'))
    return out


# ----------------------------------------------------------------------------- replay
def run_replay(path):
    with open(path) as fh:
        doc = json.load(fh)
    case = doc['case']
    want_key = doc.get('key')
    cx = (case['kind'], case['bound_1'], case['bound_2'], bool(case['unique']), bool(case['optional']), case['base'])
    B = BASES[cx[5]]
    P['third_value'] = True
    print('replaying %s  ops=%s' % (cx_text(cx), [op_text(tuple(o)) for o in case['ops']]))
    print('package: %s' % PKG)
    found = []
    verdict, reason = M.ctor_verdict(cx[0], cx[1], cx[2])
    try:
        obj = build(cx)
        res = ('ok', None)
    except Exception as e:
        res = ('exc', type(e).__name__, str(e)[:120])
    print('  ctor: expected %s (%s); observed %s' % (
        {LEGAL: 'accepted', ILLEGAL: 'rejected'}[verdict], reason, 'accepted' if res[0] == 'ok' else 'raised ' + res[1]))
    if res[0] == 'ok' and verdict == ILLEGAL:
        found.append('C19/%s/ctor/%s/accepted-illegal' % (cx[0], reason))
    elif res[0] == 'exc' and verdict == LEGAL:
        found.append('C19/%s/ctor/%s/rejected-legal-%s' % (cx[0], reason, res[1]))
    if res[0] == 'ok' and verdict == LEGAL:
        model = M.Model(*cx[:5])
        ms = model.initial()
        for op in case['ops']:
            op = tuple(op)
            before = snap(obj, B)
            res = execute(obj, op, B)
            v, rsn, viol, etxt, otxt = judge_step(cx, model, ms, op, res, B)
            mark = ''
            if viol:
                found.append(viol[0])
                mark = '   <-- VIOLATION ' + viol[0]
            if op[0] in ('get', 'q') and snap(obj, B) != before:
                k = '%s/%s/state-changed-by-%s' % (key_prefix(cx), OPNAME.get(op[0], op[1]), 'read' if op[0] == 'get' else 'query')
                found.append(k)
                mark += '   <-- VIOLATION ' + k
            print('  %-14s expected: %-60s observed: %s%s' % (op_text(op), etxt, otxt + (': ' + res[2] if res[0] == 'exc' else ''), mark))
            if op[0] in ('set', 'add') and res[0] == 'ok' and v != ILLEGAL:
                ms = model.apply(ms, op, B.mvals)
        print('  model state at the end: %r' % (ms,))
        print('  real  state at the end: %r' % (snap(obj, B),))
    still = (want_key in found) if want_key else bool(found)
    if still:
        print('REPRODUCED key=%s' % (want_key or found[0]))
        return 1
    if found:
        print('recorded key %s NOT reproduced, but other violation(s): %s' % (want_key, sorted(set(found))))
        return 1
    print('not reproduced: the history no longer violates')
    return 0


# ----------------------------------------------------------------------------- main
def scope_isolation_job(job):
    """One fresh process: two containers whose base type is given by the SAME NAME, resolved in two different scopes (two generated schema modules
    that both define `measure`), used one after the other.  Every value of both scopes is offered to each container, before and after the other
    container has resolved the name.  job = (kind, first scope index); returns a list of (key, what, case)."""
    import types
    kind, first = job
    I, S = SDT.INTEGER, SDT.STRING
    sa, sb = types.ModuleType('schema_a'), types.ModuleType('schema_b')
    class measure_a(I):
        pass
    class measure_b(S):
        pass
    measure_a.__name__ = measure_b.__name__ = 'measure'
    sa.measure, sb.measure = measure_a, measure_b
    scopes = [(sa, measure_a(2), measure_a(3)), (sb, measure_b('u'), measure_b('v'))]
    out = []

    def make(scope):
        if kind == 'ARRAY':
            return ADT.ARRAY(1, 3, 'measure', scope=scope)
        if kind == 'LIST':
            return ADT.LIST(0, 3, 'measure', scope=scope)
        return (ADT.BAG if kind == 'BAG' else ADT.SET)(0, 3, 'measure', scope=scope)

    def put(c, k, v):
        try:
            if kind in ('ARRAY', 'LIST'):
                c[1 + k if kind == 'ARRAY' else k] = v
            else:
                c.add(v)
            return True
        except Exception:
            return False
    order = [first, 1 - first]
    conts = []
    for step, si in enumerate(order):
        scope, own1, own2 = scopes[si]
        other = scopes[1 - si]
        try:
            c = make(scope)
        except Exception as e:
            out.append(('C19/%s/scope/constructor-rejected' % kind, 'container over measure in %s: %s' % (scope.__name__, e), {'kind': kind, 'order': order}))
            continue
        conts.append(c)
        ok_own = put(c, 0, own1)
        ok_foreign = put(c, 1, other[1])
        when = 'first-use' if step == 0 else 'after-the-name-was-resolved-in-another-scope'
        if not ok_own:
            out.append(('C19/%s/scope/%s/rejected-legal' % (kind, when), '%s OF measure (scope %s) rejects a value of ITS measure (%s)' % (kind, scope.__name__, when), {'kind': kind, 'order': order}))
        if ok_foreign:
            out.append(('C19/%s/scope/%s/accepted-illegal' % (kind, when), '%s OF measure (scope %s) accepts a value of the OTHER scope\'s measure (%s)' % (kind, scope.__name__, when), {'kind': kind, 'order': order}))
    # and once more on the first container, now that both scopes have resolved the name
    if len(conts) == 2:
        scope, own1, own2 = scopes[order[0]]
        if not put(conts[0], 2 if kind == 'ARRAY' else 1, own2):
            out.append(('C19/%s/scope/after-both/rejected-legal' % kind, 'the first container rejects a value of its own measure after the other scope resolved the name', {'kind': kind, 'order': order}))
    return out


def main():
    args = common.parse_args(sys.argv[1:])
    if args.replay:
        return run_replay(args.replay)
    chk = common.Check('C19', args.tier, deadline_s=args.deadline)
    if args.tier == 'thorough':
        P.update(depth=9, third_value=True, list_imax=7)
    else:
        P.update(depth=6, third_value=True, list_imax=5)
    P['deadline_abs'] = chk.deadline.t0 + chk.deadline.limit
    cxs = constructions()
    chk.rule = ('every construction in {ARRAY,LIST,BAG,SET} x bound_1 in %s x bound_2 in %s x UNIQUE (ARRAY,LIST) x OPTIONAL (ARRAY) '
                'x base type in %s (legal and illegal ones; the constructor verdict is checked); for each accepted legal construction '
                'BFS over operation histories on the real object, deduplicated on (all instance attributes, model state): in every '
                'distinct state of depth < %d every x[i]=v / add(v) with i over the whole index range bound_1-1..bound_2+1 (ARRAY) or '
                '-1..%d (LIST) and v over %s, plus every x[i] and the 8 queries; states of depth %d get every read and query; '
                'each step is compared with the reference model (c19_model.py); successors of an illegal-but-accepted step are not expanded'
                % (list(B1S), list(B2S), list(BASE_NAMES), P['depth'], P['list_imax'],
                   BASES['NESTED'].vnames() + ['weq (INTEGER only)'], P['depth']))
    results = common.pmap(explore, cxs, chunksize=4)
    acc, rej = collections.Counter(), collections.Counter()
    merged = collections.OrderedDict()
    nfix = nlegal = 0
    pruned = unjudged = 0
    maxstates = 0
    sampled = set()
    for cx, R in zip(cxs, results):
        if R.error:
            chk.harness_error(R.error)
            continue
        chk.count(states=R.states, transitions=R.transitions)
        for k, n in R.outcomes.items():
            chk.outcome(k, n)
        for k, n in R.classes.items():
            chk.cls(k, n)
        acc.update(R.acc)
        rej.update(R.rej)
        pruned += R.pruned
        unjudged += R.unjudged
        maxstates = max(maxstates, R.states)
        for s in R.samples:
            tag = (cx[0], cx[5])
            if tag not in sampled and cx[1] == 1:
                sampled.add(tag)
                chk.sample(s, maxn=20)
        if R.states:
            nlegal += 1
            nfix += bool(R.fixpoint)
        if R.capped:
            chk.cap('deadline reached inside %s' % cx_text(cx))
        for key, (n, what, case, nops) in R.viol.items():
            m = merged.get(key)
            if m is None:
                merged[key] = [n, what, case, nops]
            else:
                m[0] += n
                if nops < m[3]:
                    m[1], m[2], m[3] = what, case, nops
    for key in sorted(merged):
        n, what, case, nops = merged[key]
        chk.violation(key, what, case)
    # the same type NAME in two scopes: every container kind x both orders, each in a process of its own
    import multiprocessing as _mp
    jobs = [(k, f) for k in KINDS for f in (0, 1)]
    with _mp.get_context('fork').Pool(len(jobs), maxtasksperchild=1) as pool:
        for job, vs in zip(jobs, pool.map(scope_isolation_job, jobs, 1)):
            chk.count(states=3, transitions=5)
            chk.cls('scope-isolation/%s' % job[0])
            if not vs:
                chk.outcome('scope-isolated')
            for key, what, case in vs:
                chk.outcome('scope-violation')
                chk.violation(key, what, case)
        chk.viol[key]['count'] = n
    chk.bounds['depth'] = P['depth']
    chk.bounds['constructions'] = len(cxs)
    chk.bounds['constructions_explored'] = nlegal
    chk.bounds['constructions_with_closed_state_space'] = nfix
    chk.extra['accepted_per_class'] = dict(acc)
    chk.extra['rejected_per_class'] = dict(rej)
    chk.extra['error_states_not_expanded'] = pruned
    chk.extra['unjudged_steps'] = unjudged
    chk.extra['max_states_one_construction'] = maxstates
    chk.extra['package'] = PKG
    chk.assumptions += [
        'LIST: x[i]=v is the only mutator the package offers; judged legal when i holds an element or is the first free index >= 1 '
        '(<= bound_2), judged illegal when i < 1 or i > bound_2; writes that would leave a gap are NOT judged (the package allows sparse lists on purpose).',
        'LIST reads of an index without element may raise or return None; only a real value is a violation. ARRAY reads outside the bounds / of an unset non-OPTIONAL element must raise.',
        'UNIQUE ARRAY/LIST: re-assigning an equal value to the SAME index is not judged (legal in EXPRESS, rejection demanded by the package test-suite).',
        'x[i]=None on an OPTIONAL ARRAY is not judged; None is illegal everywhere else.',
        'SET.add of a value already in the set may be accepted (no-op) or rejected; the set must not grow.',
        'VALUE_UNIQUE on an ARRAY with both equal elements and unset elements may be FALSE or UNKNOWN; on a LIST with gaps UNKNOWN is tolerated.',
        'Lower bounds of LIST/BAG/SET (minimum size) are not enforced by operations and are not judged.',
        'Nested ARRAY values are distinct objects with distinct contents; equality of distinct equal-valued aggregate objects is not judged.',
        'Plain Python int/str (not INTEGER/STRING instances) are not part of the value alphabet.',
    ]
    # ---- vacuity guards
    if len(chk.outcomes) <= 1:
        chk.harness_error('vacuous: %d distinct outcome(s)' % len(chk.outcomes))
    need_both = [k + '/' + o for k in KINDS for o in (['ctor', 'setitem', 'getitem'] if k in ('ARRAY', 'LIST') else ['ctor', 'add'])]
    for c in need_both:
        if not acc[c] or not rej[c]:
            chk.harness_error('operation class %s: accepted %d times, rejected %d times' % (c, acc[c], rej[c]))
    for k in KINDS:
        if not acc[k + '/query']:
            chk.harness_error('operation class %s/query never answered' % k)
    return chk.finish()


if __name__ == '__main__':
    try:
        rc = main()
    except SystemExit:
        raise
    except BaseException:
        # an uncaught exception would exit with 1 and be mistaken for a violation
        traceback.print_exc()
        sys.stderr.write('HARNESS-ERROR C19: uncaught exception in the harness\n')
        rc = 2
    sys.exit(rc)
