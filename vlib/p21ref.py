"""Reference Part 21 lexer/parser, written from doc/iso-10303-21--2002.bnf, independent of the code
under test.  Works on bytes.  Values are tagged tuples:
 ('int', n) ('real', float, text) ('str', raw) ('bin', text) ('enum', NAME) ('ref', id)
 ('null',) ('omit',) ('typed', KW, value) ('list', [values])
"""
import re

WS = b' \t\r\n\f\v'
HEX = b'0123456789ABCDEF'
UPPER = b'ABCDEFGHIJKLMNOPQRSTUVWXYZ_'
DIGIT = b'0123456789'
SPECIAL = b'!"*$%&.#+,-()?/:;<=>@[]{|}^`~'
LOWER = b'abcdefghijklmnopqrstuvwxyz'
NONQ = SPECIAL + DIGIT + b' ' + LOWER + UPPER

RE_INT = re.compile(rb'[+-]?[0-9]+')
RE_REAL = re.compile(rb'[+-]?[0-9]+\.[0-9]*(?:E[+-]?[0-9]+)?')
RE_KW = re.compile(rb'!?[A-Z_][A-Z_0-9]*')
RE_ENUM = re.compile(rb'\.[A-Z_][A-Z_0-9]*\.')
RE_BIN = re.compile(rb'"[0-3][0-9A-F]*"')
RE_REF = re.compile(rb'#[0-9]+')
_STR_BODY = (rb"(?:[" + re.escape(NONQ) + rb"]|''|\\\\|\\S\\[" + re.escape(NONQ + b"\\'") + rb"]|\\P[A-Z_]\\|\\X\\[0-9A-F]{2}"
             rb"|\\X2\\(?:[0-9A-F]{4})+\\X0\\|\\X4\\(?:[0-9A-F]{8})+\\X0\\)*")
RE_STR = re.compile(rb"'" + _STR_BODY + rb"'")


class P21Error(Exception):
    pass


def full(rx, tok):
    m = rx.match(tok)
    return m is not None and m.end() == len(tok)


class Lexer:
    def __init__(self, data):
        self.d = data
        self.i = 0
        self.comments = 0

    def skip(self):
        d = self.d
        n = len(d)
        while self.i < n:
            c = d[self.i:self.i + 1]
            if c in (b' ', b'\t', b'\r', b'\n', b'\f', b'\v'):
                self.i += 1
            elif d.startswith(b'/*', self.i):
                j = d.find(b'*/', self.i + 2)
                if j < 0:
                    raise P21Error('unterminated comment at %d' % self.i)
                self.comments += 1
                self.i = j + 2
            else:
                break

    def peek(self):
        self.skip()
        return self.d[self.i:self.i + 1]

    def expect(self, lit):
        self.skip()
        if not self.d.startswith(lit, self.i):
            raise P21Error('expected %r at %d, found %r' % (lit, self.i, self.d[self.i:self.i + 20]))
        self.i += len(lit)

    def accept(self, lit):
        self.skip()
        if self.d.startswith(lit, self.i):
            self.i += len(lit)
            return True
        return False

    def match(self, rx, what):
        self.skip()
        m = rx.match(self.d, self.i)
        if not m:
            raise P21Error('expected %s at %d, found %r' % (what, self.i, self.d[self.i:self.i + 20]))
        self.i = m.end()
        return m.group(0)


def parse_param(lx):
    c = lx.peek()
    if c == b'$':
        lx.i += 1
        return ('null',)
    if c == b'*':
        lx.i += 1
        return ('omit',)
    if c == b'(':
        lx.i += 1
        items = []
        if lx.accept(b')'):
            return ('list', items)
        while True:
            items.append(parse_param(lx))
            if lx.accept(b','):
                continue
            lx.expect(b')')
            return ('list', items)
    if c == b"'":
        m = RE_STR.match(lx.d, lx.i)
        if not m:
            raise P21Error('bad string at %d: %r' % (lx.i, lx.d[lx.i:lx.i + 30]))
        lx.i = m.end()
        return ('str', m.group(0)[1:-1])
    if c == b'"':
        return ('bin', lx.match(RE_BIN, 'binary')[1:-1].decode())
    if c == b'#':
        return ('ref', int(lx.match(RE_REF, 'instance name')[1:]))
    if c == b'.':
        return ('enum', lx.match(RE_ENUM, 'enumeration')[1:-1].decode())
    if c and c in b'+-0123456789':
        m = RE_REAL.match(lx.d, lx.i)
        if m:
            lx.i = m.end()
            t = m.group(0).decode()
            return ('real', float(t), t)
        t = lx.match(RE_INT, 'number')
        return ('int', int(t))
    if c and (c in UPPER or c == b'!'):
        kw = lx.match(RE_KW, 'keyword').decode()
        lx.expect(b'(')
        v = parse_param(lx)
        lx.expect(b')')
        return ('typed', kw, v)
    raise P21Error('unexpected %r at %d' % (lx.d[lx.i:lx.i + 20], lx.i))


def parse_record(lx):
    kw = lx.match(RE_KW, 'keyword').decode()
    lx.expect(b'(')
    params = []
    if lx.accept(b')'):
        return (kw, params)
    while True:
        params.append(parse_param(lx))
        if lx.accept(b','):
            continue
        lx.expect(b')')
        return (kw, params)


class Inst:
    __slots__ = ('id', 'parts', 'complex', 'state', 'span')

    def __init__(self, id, parts, cplx, state=None, span=None):
        self.id, self.parts, self.complex, self.state, self.span = id, parts, cplx, state, span

    def __repr__(self):
        return 'Inst(#%d %s%r)' % (self.id, 'complex ' if self.complex else '', self.parts)


class Population:
    def __init__(self):
        self.header = []
        self.insts = []
        self.comments = 0
        self.working = False

    def by_id(self):
        return {i.id: i for i in self.insts}


RE_STATE = re.compile(rb'[CIND]')


def parse_file(data, working=False):
    """Parses an exchange file (or, with working=True, a working-session file: first token
    STEP_WORKING_SESSION; and each instance prefixed by a state letter).  Raises P21Error."""
    lx = Lexer(data)
    pop = Population()
    if working:
        lx.expect(b'STEP_WORKING_SESSION;')
        pop.working = True
    else:
        lx.expect(b'ISO-10303-21;')
    lx.expect(b'HEADER;')
    while not lx.accept(b'ENDSEC;'):
        pop.header.append(parse_record(lx))
        lx.expect(b';')
    if len(pop.header) < 3:
        raise P21Error('header needs 3 entities')
    nsec = 0
    while True:
        lx.skip()
        if not lx.d.startswith(b'DATA', lx.i):
            break
        lx.i += 4
        nsec += 1
        if lx.accept(b'('):
            while True:
                parse_param(lx)
                if lx.accept(b','):
                    continue
                lx.expect(b')')
                break
        lx.expect(b';')
        while not lx.accept(b'ENDSEC;'):
            state = None
            start = lx.i
            if working:
                c = lx.peek()
                if c in (b'C', b'I', b'N', b'D'):
                    state = c.decode()
                    lx.i += 1
            lx.skip()
            start = lx.i
            idt = lx.match(RE_REF, 'instance name')
            lx.expect(b'=')
            if lx.peek() == b'(':
                lx.i += 1
                parts = []
                while not lx.accept(b')'):
                    parts.append(parse_record(lx))
                if not parts:
                    raise P21Error('empty subsuper record')
                inst = Inst(int(idt[1:]), parts, True, state)
            else:
                inst = Inst(int(idt[1:]), [parse_record(lx)], False, state)
            lx.expect(b';')
            inst.span = (start, lx.i)
            pop.insts.append(inst)
    if nsec == 0:
        raise P21Error('no DATA section')
    if working:
        lx.expect(b'END-STEP_WORKING_SESSION;')
    else:
        lx.expect(b'END-ISO-10303-21;')
    lx.skip()
    if lx.i != len(lx.d):
        raise P21Error('trailing garbage at %d' % lx.i)
    pop.comments = lx.comments
    return pop


# ---------------------------------------------------------------- comparison

def r15(x):
    return '%.14E' % x


def value_diff(a, b, kind=None):
    """None when a and b denote the same value; otherwise a short difference class."""
    ta, tb = a[0], b[0]
    if ta != tb:
        if kind == 'NUMBER' and {ta, tb} == {'int', 'real'}:
            return None if float(a[1]) == float(b[1]) else 'number-value'
        return 'kind:%s->%s' % (ta, tb)
    if ta == 'int':
        return None if a[1] == b[1] else 'int-value'
    if ta == 'real':
        if a[1] == b[1] or r15(a[1]) == r15(b[1]):
            return None
        return 'real-value'
    if ta == 'str':
        return None if a[1] == b[1] else 'str-bytes'
    if ta == 'bin':
        return None if a[1] == b[1] else 'bin-bytes'
    if ta == 'enum':
        return None if a[1] == b[1] else 'enum-item'
    if ta == 'ref':
        return None if a[1] == b[1] else 'ref-id'
    if ta in ('null', 'omit'):
        return None
    if ta == 'typed':
        if a[1] != b[1]:
            return 'select-keyword'
        d = value_diff(a[2], b[2])
        return None if d is None else 'select/' + d
    if ta == 'list':
        if len(a[1]) != len(b[1]):
            return 'aggr-length:%d->%d' % (len(a[1]), len(b[1])) if max(len(a[1]), len(b[1])) < 4 else 'aggr-length'
        for k, (x, y) in enumerate(zip(a[1], b[1])):
            d = value_diff(x, y)
            if d is not None:
                return 'aggr[%s]/%s' % ('0' if k == 0 else 'n', d)
        return None
    raise ValueError(ta)


def render(v):
    t = v[0]
    if t == 'int':
        return str(v[1])
    if t == 'real':
        return v[2]
    if t == 'str':
        return "'" + v[1].decode('latin1') + "'"
    if t == 'bin':
        return '"' + v[1] + '"'
    if t == 'enum':
        return '.' + v[1] + '.'
    if t == 'ref':
        return '#%d' % v[1]
    if t == 'null':
        return '$'
    if t == 'omit':
        return '*'
    if t == 'typed':
        return v[1] + '(' + render(v[2]) + ')'
    if t == 'list':
        return '(' + ','.join(render(x) for x in v[1]) + ')'
    raise ValueError(t)


def refs_in(v, acc=None):
    if acc is None:
        acc = []
    if v[0] == 'ref':
        acc.append(v[1])
    elif v[0] == 'typed':
        refs_in(v[2], acc)
    elif v[0] == 'list':
        for x in v[1]:
            refs_in(x, acc)
    return acc


def inst_refs(inst):
    acc = []
    for kw, params in inst.parts:
        for p in params:
            refs_in(p, acc)
    return acc


def mask_timestamp(data):
    """Replace the 2nd parameter of FILE_NAME (time stamp) by a constant."""
    return re.sub(rb"(FILE_NAME\s*\(\s*'(?:[^']|'')*'\s*,\s*)'(?:[^']|'')*'", rb"\1'T'", data, count=1)


# ---------------------------------------------------------------- string decoding (value of a string token)

def decode_string(raw):
    """Code points denoted by the raw body of a Part 21 string (between the quotes)."""
    out = []
    i = 0
    n = len(raw)
    page = 0  # ISO 8859 page A == Latin-1
    while i < n:
        c = raw[i:i + 1]
        if c == b"'":
            out.append(39)
            i += 2
        elif c == b'\\':
            if raw.startswith(b'\\\\', i):
                out.append(92)
                i += 2
            elif raw.startswith(b'\\S\\', i):
                out.append(raw[i + 3] + 128)
                i += 4
            elif raw.startswith(b'\\P', i):
                i += 4
            elif raw.startswith(b'\\X\\', i):
                out.append(int(raw[i + 3:i + 5], 16))
                i += 5
            elif raw.startswith(b'\\X2\\', i):
                j = raw.index(b'\\X0\\', i)
                h = raw[i + 4:j]
                for k in range(0, len(h), 4):
                    out.append(int(h[k:k + 4], 16))
                i = j + 4
            elif raw.startswith(b'\\X4\\', i):
                j = raw.index(b'\\X0\\', i)
                h = raw[i + 4:j]
                for k in range(0, len(h), 8):
                    out.append(int(h[k:k + 8], 16))
                i = j + 4
            else:
                raise P21Error('bad escape')
        else:
            out.append(raw[i])
            i += 1
    return out
