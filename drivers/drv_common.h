// Shared by all drivers: loads the schema library given as argv[1], answers on fd 3,
// sends the library's own chatter (stdout/stderr) to the log file given as argv[2].
#ifndef DRV_COMMON_H
#define DRV_COMMON_H
#include <dlfcn.h>
#include <unistd.h>
#include <fcntl.h>
#include <stdio.h>
#include <stdlib.h>
#include <string.h>
#include <string>
#include <sstream>
#include <iostream>
#include <vector>
#include "clstepcore/sdai.h"
#include "clstepcore/Registry.h"
#include "clstepcore/ExpDict.h"
#include "clstepcore/STEPattribute.h"
#include "clutils/errordesc.h"

typedef void ( *SchemaInitFn )( Registry & );
static FILE * g_out = 0;
static int g_logfd = -1;

static SchemaInitFn drv_load( int argc, char ** argv ) {
    if( argc < 3 ) {
        fprintf( stderr, "usage: %s libschema.so|- logfile\n", argv[0] );
        exit( 2 );
    }
    g_out = fdopen( 3, "w" );
    if( !g_out ) {
        fprintf( stderr, "fd 3 not open\n" );
        exit( 2 );
    }
    g_logfd = open( argv[2], O_WRONLY | O_CREAT | O_TRUNC, 0644 );
    if( g_logfd >= 0 ) {
        dup2( g_logfd, 1 );
        dup2( g_logfd, 2 );
    }
    if( !strcmp( argv[1], "-" ) ) {
        return 0;
    }
    void * h = dlopen( argv[1], RTLD_NOW | RTLD_GLOBAL );
    if( !h ) {
        fprintf( g_out, "FATAL dlopen %s\n", dlerror() );
        fflush( g_out );
        exit( 2 );
    }
    SchemaInitFn f = ( SchemaInitFn ) dlsym( h, "_Z10SchemaInitR8Registry" );
    if( !f ) {
        fprintf( g_out, "FATAL dlsym %s\n", dlerror() );
        fflush( g_out );
        exit( 2 );
    }
    return f;
}

// truncate the chatter log so that what remains after a crash belongs to the last command
static void drv_logreset() {
    fflush( stdout );
    fflush( stderr );
    std::cout.flush();
    std::cerr.flush();
    if( g_logfd >= 0 ) {
        ftruncate( g_logfd, 0 );
        lseek( g_logfd, 0, SEEK_SET );
    }
}

static std::string hexenc( const std::string & s ) {
    static const char * d = "0123456789abcdef";
    std::string o;
    o.reserve( s.size() * 2 );
    for( size_t i = 0; i < s.size(); i++ ) {
        unsigned char c = ( unsigned char ) s[i];
        o += d[c >> 4];
        o += d[c & 15];
    }
    return o;
}

static std::string hexdec( const std::string & s ) {
    std::string o;
    for( size_t i = 0; i + 1 < s.size(); i += 2 ) {
        o += ( char ) strtol( s.substr( i, 2 ).c_str(), 0, 16 );
    }
    return o;
}

static void done() {
    fflush( stdout );
    fflush( stderr );
    std::cout.flush();
    std::cerr.flush();
    fputs( ".\n", g_out );
    fflush( g_out );
}
#endif
