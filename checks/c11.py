#!/usr/bin/python3
"""C11 - inverse attributes resolved on load contain exactly the real referrers.
Program x input enumeration: a family of INVERSE shapes (one / several inverses per entity, inherited,
single-valued and SET/BAG, over single and aggregate inverted attributes, referrer subtypes) packed into
one schema; ALL populations with <= 2 targets and <= 3 referrers (every reference attribute points to
target 1, target 2 or is unset; aggregates hold every sub-multiset of size <= 2); every instance chosen for
loading; the inverse attributes after lazyInstMgr::loadInstance are compared with the population."""
import sys, os, json, re, itertools
sys.path.insert(0, '/verif')
from vlib import common, build, smodel, p21ref, drv
import multiprocessing as mp

PID = 'C11'

# variant -> (EXPRESS declarations, description used by the population generator)
# description: targets: [entity names], referrers: [(entity, [(attr, 'single'|'aggr')])], inverses: {target entity: [(inv name, referrer entity, attr, 'set'|'single')]}
VARIANTS = {
    'v1': ("""ENTITY v1_tgt; n : INTEGER; INVERSE users : SET [0:?] OF v1_ref FOR t; END_ENTITY;
ENTITY v1_ref; t : OPTIONAL v1_tgt; END_ENTITY;""",
           {'targets': ['v1_tgt'], 'referrers': [('v1_ref', [('t', 'single')])], 'inverses': {'v1_tgt': [('users', 'v1_ref', 't', 'set')]}}),
    'v2': ("""ENTITY v2_tgt; n : INTEGER; INVERSE one : v2_ref FOR t; END_ENTITY;
ENTITY v2_ref; t : OPTIONAL v2_tgt; END_ENTITY;""",
           {'targets': ['v2_tgt'], 'referrers': [('v2_ref', [('t', 'single')])], 'inverses': {'v2_tgt': [('one', 'v2_ref', 't', 'single')]}}),
    'v3': ("""ENTITY v3_tgt; n : INTEGER; INVERSE lusers : BAG [0:?] OF v3_ref FOR ts; END_ENTITY;
ENTITY v3_ref; ts : LIST [0:?] OF v3_tgt; END_ENTITY;""",
           {'targets': ['v3_tgt'], 'referrers': [('v3_ref', [('ts', 'aggr')])], 'inverses': {'v3_tgt': [('lusers', 'v3_ref', 'ts', 'set')]}}),
    'v4': ("""ENTITY v4_tgt; n : INTEGER; INVERSE by_t : SET [0:?] OF v4_ref FOR t; by_u : SET [0:?] OF v4_ref FOR u; END_ENTITY;
ENTITY v4_ref; t : OPTIONAL v4_tgt; u : OPTIONAL v4_tgt; END_ENTITY;""",
           {'targets': ['v4_tgt'], 'referrers': [('v4_ref', [('t', 'single'), ('u', 'single')])], 'inverses': {'v4_tgt': [('by_t', 'v4_ref', 't', 'set'), ('by_u', 'v4_ref', 'u', 'set')]}}),
    'v5': ("""ENTITY v5_tgt; n : INTEGER; INVERSE ra : SET [0:?] OF v5_refa FOR t; rb : SET [0:?] OF v5_refb FOR t; END_ENTITY;
ENTITY v5_refa; t : OPTIONAL v5_tgt; END_ENTITY;
ENTITY v5_refb; t : OPTIONAL v5_tgt; END_ENTITY;""",
           {'targets': ['v5_tgt'], 'referrers': [('v5_refa', [('t', 'single')]), ('v5_refb', [('t', 'single')])], 'inverses': {'v5_tgt': [('ra', 'v5_refa', 't', 'set'), ('rb', 'v5_refb', 't', 'set')]}}),
    'v6': ("""ENTITY v6_sup; n : INTEGER; INVERSE users : SET [0:?] OF v6_ref FOR t; END_ENTITY;
ENTITY v6_tgt SUBTYPE OF (v6_sup); m : INTEGER; END_ENTITY;
ENTITY v6_ref; t : OPTIONAL v6_sup; END_ENTITY;""",
           {'targets': ['v6_tgt'], 'referrers': [('v6_ref', [('t', 'single')])], 'inverses': {'v6_tgt': [('users', 'v6_ref', 't', 'set')]}, 'tparams': {'v6_tgt': 2}}),
    'v7': ("""ENTITY v7_tgt; n : INTEGER; INVERSE users : SET [0:?] OF v7_ref FOR t; END_ENTITY;
ENTITY v7_ref; t : OPTIONAL v7_tgt; END_ENTITY;
ENTITY v7_refsub SUBTYPE OF (v7_ref); k : INTEGER; END_ENTITY;
ENTITY v7_other; t : OPTIONAL v7_tgt; END_ENTITY;""",
           {'targets': ['v7_tgt'], 'referrers': [('v7_ref', [('t', 'single')]), ('v7_refsub', [('t', 'single')]), ('v7_other', [('t', 'single')])],
            'inverses': {'v7_tgt': [('users', 'v7_ref', 't', 'set')]}, 'extra': {'v7_refsub': ['7']}, 'isa': {'v7_refsub': 'v7_ref'}}),
    # the inverse is declared two levels up
    'v8': ("""ENTITY v8_top; n : INTEGER; INVERSE users : SET [0:?] OF v8_ref FOR t; END_ENTITY;
ENTITY v8_mid SUBTYPE OF (v8_top); m : INTEGER; END_ENTITY;
ENTITY v8_tgt SUBTYPE OF (v8_mid); k : INTEGER; END_ENTITY;
ENTITY v8_ref; t : OPTIONAL v8_top; END_ENTITY;""",
           {'targets': ['v8_tgt'], 'referrers': [('v8_ref', [('t', 'single')])], 'inverses': {'v8_tgt': [('users', 'v8_ref', 't', 'set')]}, 'tparams': {'v8_tgt': 3}}),
    # two supertypes, each with an inverse of its own, and one declared by the entity itself
    'v9': ("""ENTITY v9_a; n : INTEGER; INVERSE ua : SET [0:?] OF v9_refa FOR t; END_ENTITY;
ENTITY v9_b; m : INTEGER; INVERSE ub : SET [0:?] OF v9_refb FOR t; END_ENTITY;
ENTITY v9_tgt SUBTYPE OF (v9_a, v9_b); k : INTEGER; INVERSE uc : SET [0:?] OF v9_refc FOR t; END_ENTITY;
ENTITY v9_refa; t : OPTIONAL v9_a; END_ENTITY;
ENTITY v9_refb; t : OPTIONAL v9_b; END_ENTITY;
ENTITY v9_refc; t : OPTIONAL v9_tgt; END_ENTITY;""",
           {'targets': ['v9_tgt'], 'referrers': [('v9_refa', [('t', 'single')]), ('v9_refb', [('t', 'single')]), ('v9_refc', [('t', 'single')])],
            'inverses': {'v9_tgt': [('ua', 'v9_refa', 't', 'set'), ('ub', 'v9_refb', 't', 'set'), ('uc', 'v9_refc', 't', 'set')]}, 'tparams': {'v9_tgt': 3}}),
    # a referrer with a single-valued and an aggregate attribute onto the same target entity, each inverted
    'v10': ("""ENTITY v10_tgt; n : INTEGER; INVERSE by_one : SET [0:?] OF v10_ref FOR one; by_many : SET [0:?] OF v10_ref FOR many; END_ENTITY;
ENTITY v10_ref; one : OPTIONAL v10_tgt; many : LIST [0:?] OF v10_tgt; END_ENTITY;""",
            {'targets': ['v10_tgt'], 'referrers': [('v10_ref', [('one', 'single'), ('many', 'aggr')])],
             'inverses': {'v10_tgt': [('by_one', 'v10_ref', 'one', 'set'), ('by_many', 'v10_ref', 'many', 'set')]}}),
    # referrer side with multiple inheritance: j is a subtype of BOTH s1 and s2, k (declared after j) of s2 only; every kind of v11_s2 is a referrer
    'v11': ("""ENTITY v11_tgt; n : INTEGER; INVERSE users : SET [0:?] OF v11_s2 FOR t; END_ENTITY;
ENTITY v11_s1; a1 : INTEGER; END_ENTITY;
ENTITY v11_s2; t : OPTIONAL v11_tgt; END_ENTITY;
ENTITY v11_j SUBTYPE OF (v11_s1, v11_s2); jx : INTEGER; END_ENTITY;
ENTITY v11_k SUBTYPE OF (v11_s2); kx : INTEGER; END_ENTITY;
ENTITY v11_l SUBTYPE OF (v11_s2, v11_s1); lx : INTEGER; END_ENTITY;""",
            {'targets': ['v11_tgt'], 'referrers': [('v11_s2', [('t', 'single')]), ('v11_j', [('t', 'single')]), ('v11_k', [('t', 'single')]), ('v11_l', [('t', 'single')])],
             'inverses': {'v11_tgt': [('users', 'v11_s2', 't', 'set')]}, 'isa': {'v11_j': 'v11_s2', 'v11_k': 'v11_s2', 'v11_l': 'v11_s2'},
             'pre': {'v11_j': ['7']}, 'extra': {'v11_j': ['8'], 'v11_k': ['9'], 'v11_l': ['6', '5']}}),
    # target side with multiple inheritance: the inverse is declared by m, reached through the SECOND supertype (c) of the second supertype's... d(b, c), b(a), c(a, m)
    'v12': ("""ENTITY v12_a; n : INTEGER; END_ENTITY;
ENTITY v12_m; mm : INTEGER; INVERSE logs : SET [0:?] OF v12_ref FOR t; END_ENTITY;
ENTITY v12_b SUBTYPE OF (v12_a); bb : INTEGER; END_ENTITY;
ENTITY v12_c SUBTYPE OF (v12_a, v12_m); cc : INTEGER; END_ENTITY;
ENTITY v12_tgt SUBTYPE OF (v12_b, v12_c); dd : INTEGER; END_ENTITY;
ENTITY v12_ref; t : OPTIONAL v12_m; END_ENTITY;""",
            {'targets': ['v12_tgt'], 'referrers': [('v12_ref', [('t', 'single')])], 'inverses': {'v12_tgt': [('logs', 'v12_ref', 't', 'set')]}, 'tparams': {'v12_tgt': 5}}),
    # the target entity is its own referrer: parent / buddies point to nodes, an instance may mention itself
    'v13': ("""ENTITY v13_node; parent : OPTIONAL v13_node; buddies : LIST [0:?] OF v13_node;
 INVERSE children : SET [0:?] OF v13_node FOR parent; befriended_by : SET [0:?] OF v13_node FOR buddies; END_ENTITY;""",
            {'targets': ['v13_node'], 'referrers': [], 'self': True,
             'inverses': {'v13_node': [('children', 'v13_node', 'parent', 'set'), ('befriended_by', 'v13_node', 'buddies', 'set')]}}),
    # two inverse attributes of the same name, inherited from two supertypes
    'v14': ("""ENTITY v14_a; n : INTEGER; INVERSE used_in : SET [0:?] OF v14_ra FOR item; END_ENTITY;
ENTITY v14_b; m : INTEGER; INVERSE used_in : SET [0:?] OF v14_rb FOR item; END_ENTITY;
ENTITY v14_tgt SUBTYPE OF (v14_a, v14_b); k : INTEGER; END_ENTITY;
ENTITY v14_ra; item : OPTIONAL v14_a; END_ENTITY;
ENTITY v14_rb; item : OPTIONAL v14_b; END_ENTITY;""",
            {'targets': ['v14_tgt'], 'referrers': [('v14_ra', [('item', 'single')]), ('v14_rb', [('item', 'single')])],
             'inverses': {'v14_tgt': [('v14_a.used_in', 'v14_ra', 'item', 'set'), ('v14_b.used_in', 'v14_rb', 'item', 'set')]}, 'tparams': {'v14_tgt': 3}}),
    # the inverted attribute is declared with a defined aggregate type, directly (seq) and through a renaming of it (ord)
    # the inverted attribute is INHERITED by the entity the inverse names (FOR t, t declared in the supertype of v16_refsub): only the subtype's instances count
    'v16': ("""ENTITY v16_tgt; n : INTEGER; INVERSE subusers : SET [0:?] OF v16_refsub FOR t; END_ENTITY;
ENTITY v16_ref; t : OPTIONAL v16_tgt; END_ENTITY;
ENTITY v16_refsub SUBTYPE OF (v16_ref); k : INTEGER; END_ENTITY;""",
            {'targets': ['v16_tgt'], 'referrers': [('v16_ref', [('t', 'single')]), ('v16_refsub', [('t', 'single')])],
             'inverses': {'v16_tgt': [('subusers', 'v16_refsub', 't', 'set')]}, 'extra': {'v16_refsub': ['7']}}),
    'v15': ("""TYPE v15_list = LIST [0:?] OF v15_tgt; END_TYPE;
TYPE v15_ord = v15_list; END_TYPE;
ENTITY v15_tgt; n : INTEGER; INVERSE in_seq : SET [0:?] OF v15_ref FOR seq; in_ord : SET [0:?] OF v15_ref FOR ord; END_ENTITY;
ENTITY v15_ref; seq : v15_list; ord : v15_ord; END_ENTITY;""",
            {'targets': ['v15_tgt'], 'referrers': [('v15_ref', [('seq', 'aggr'), ('ord', 'aggr')])],
             'inverses': {'v15_tgt': [('in_seq', 'v15_ref', 'seq', 'set'), ('in_ord', 'v15_ref', 'ord', 'set')]}}),
}
SCHEMA = 'SCHEMA iv;\n' + '\n'.join(v[0] for v in VARIANTS.values()) + '\nEND_SCHEMA;\n'


def populations_self(vname, desc, tier):
    """one entity that refers to itself: ALL assignments of parent (unset or any node, itself included) and buddies (every sub-multiset of size <= 1,
    thorough <= 2) on 1..3 nodes"""
    tgt = desc['targets'][0]
    for n in ((1, 2) if tier == 'quick' else (1, 2, 3)):
        ids = list(range(1, n + 1))
        bud = [()] + [(a,) for a in ids] + ([tuple(c) for c in itertools.combinations_with_replacement(ids, 2)] if (tier != 'quick' or n == 1) else [])
        per = [[(p, b) for p in [None] + ids for b in bud] for _ in ids]
        for combo in itertools.product(*per):
            insts = []
            exp = {t: {'children': [], 'befriended_by': []} for t in ids}
            for i, (p, b) in zip(ids, combo):
                insts.append('#%d=%s(%s,(%s));' % (i, tgt.upper(), '$' if p is None else '#%d' % p, ','.join('#%d' % x for x in b)))
                if p is not None:
                    exp[p]['children'].append(i)
                for x in set(b):
                    exp[x]['befriended_by'].append(i)
            yield insts, exp


def populations(vname, desc, tier):
    """yield (insts, expectation): expectation[target id][inverse name] = sorted referrer ids"""
    if desc.get('self'):
        for x in populations_self(vname, desc, tier):
            yield x
        return
    tgt = desc['targets'][0]
    for ntargets in ((1, 2) if tier == 'quick' else (1, 2, 3)):
        tids = list(range(1, ntargets + 1))
        tinsts = ['#%d=%s(%s);' % (i, tgt.upper(), ','.join([str(i * 10)] * desc.get('tparams', {}).get(tgt, 1))) for i in tids]
        # referrer slots: up to 3 referrer instances, each of one referrer entity
        rents = desc['referrers']
        maxref = 2 if tier == 'quick' and len(rents) > 1 else 3
        if sum(1 for _, at in rents for _, kd in at if kd == 'aggr') > 1:
            maxref = 1 if tier == 'quick' else 2        # two aggregate attributes per referrer: 49 value combinations each
        if tier == 'thorough' and all(len(a) == 1 and a[0][1] == 'single' for _, a in rents) and len(rents) <= 2 and ntargets <= 2:
            maxref = 4
        for nref in range(0, maxref + 1):
            for ents in itertools.product(rents, repeat=nref):
                # per referrer, per attribute: value choices
                choice_lists = []
                for en, attrs in ents:
                    per = []
                    for an, kind in attrs:
                        if kind == 'single':
                            per.append([None] + tids)
                        else:
                            vals = [()]
                            for k in (1, 2):
                                vals += list(itertools.combinations_with_replacement(tids, k))
                            per.append(vals)
                    choice_lists.append(list(itertools.product(*per)))
                for combo in itertools.product(*choice_lists):
                    insts = list(tinsts)
                    exp = {t: {inv[0]: [] for inv in desc['inverses'][tgt]} for t in tids}
                    for k, ((en, attrs), vals) in enumerate(zip(ents, combo)):
                        rid = 10 + k
                        ps = list(desc.get('pre', {}).get(en, []))
                        for (an, kind), v in zip(attrs, vals):
                            if kind == 'single':
                                ps.append('$' if v is None else '#%d' % v)
                                mentioned = [] if v is None else [v]
                            else:
                                ps.append('(%s)' % ','.join('#%d' % x for x in v))
                                mentioned = list(v)
                            for inv, ren, ran, ik in desc['inverses'][tgt]:
                                is_a = en == ren or desc.get('isa', {}).get(en) == ren
                                if ran == an and is_a:
                                    for t in set(mentioned):
                                        exp[t][inv].append(rid)
                        ps += desc.get('extra', {}).get(en, [])
                        insts.append('#%d=%s(%s);' % (rid, en.upper(), ','.join(ps)))
                    yield insts, exp


_W = {}


def _init(libdir, variant):
    lib = build.SchemaLib(libdir, variant, [])
    _W['lz'] = drv.Driver('lazydrv', lib, variant, timeout=60, lazy=True)
    import atexit
    atexit.register(_W['lz'].close)


def run_pop(job):
    vname, insts, exp = job
    lz = _W['lz']
    lz.recycle_if_big()
    desc = VARIANTS[vname][1]
    tgt = desc['targets'][0]
    path = os.path.join(lz.dir, 'in.stp')
    with open(path, 'w') as f:
        f.write(smodel.HEADER % 'IV' + '\n'.join(insts) + '\n' + smodel.FOOTER)
    viol = []
    n = 0
    case = {'variant': vname, 'insts': insts}
    orders = [sorted(exp), sorted(exp, reverse=True)] if len(exp) > 1 else [sorted(exp)]
    # histories: the targets alone in both orders; and every referrer loaded first (which pulls the target in as a forward reference), then the targets
    rids = [int(re.match(r'#(\d+)=', i).group(1)) for i in insts if int(re.match(r'#(\d+)=', i).group(1)) >= 10]
    hists = [([], o) for o in orders] + [([r], sorted(exp)) for r in rids]
    if len(rids) > 1:
        hists.append((rids, sorted(exp)))
    mentions = {}
    for i in insts:
        m = re.match(r'#(\d+)=[A-Z0-9_]+\((.*)\);$', i)
        mentions[int(m.group(1))] = set(int(x) for x in re.findall(r'#(\d+)', m.group(2)))

    def shape(t, want):
        # a referrer that also mentions ANOTHER target is loaded while that target's own inverses are being resolved (re-entrant loading)
        return 'shared-referrer' if any(mentions.get(r, set()) - {t} for r in mentions if t in mentions[r]) else 'plain'
    for pre, order in hists:
        try:
            lz.cmd('open ' + path)
            for r in pre:
                lz.cmd('load %d' % r)
            hctx = '' if not pre else '/after-loading-%s' % ('a-referrer' if len(pre) == 1 else 'all-referrers')
            case = {'variant': vname, 'insts': insts, 'preload': pre}
            for t in order:
                n += 1
                got = {}
                for l in lz.cmd('inv %d' % t):
                    m = re.match(r'V (\S+) owner=(\S+) kind=(\S+) stored=(\S+) ids=(\S*)(?: via=(\d))?$', l.decode('latin1'))
                    if m:
                        got[m.group(1).lower()] = got[m.group(2).lower() + '.' + m.group(1).lower()] = (m.group(3), [int(x) for x in m.group(5).split(',') if x and x != 'null'], m.group(4))
                        if m.group(6) == '0':
                            viol.append(('lookup-by-descriptor/%s' % vname, 'getInvAttr(<descriptor of %s.%s>) of #%d does not answer with the holder stored for that inverse attribute' % (
                                m.group(2), m.group(1), t), case))
                for inv, ren, ran, ik in desc['inverses'][tgt]:
                    want = sorted(exp[t][inv])
                    g = got.get(inv)
                    if g is None:
                        if want:
                            viol.append(('inverse-not-set/%s/%s/%s%s' % (vname, ik, shape(t, want), hctx), 'after loading #%d the inverse attribute %s is not set; referrers are %s' % (t, inv, want), case))
                        continue
                    ids = g[1]
                    if g[0] != g[2] and (want or ids):
                        viol.append(('container-kind/%s/declared-%s-stored-%s' % (vname, g[0], g[2]), 'inverse %s is declared %s but the loader fills the %s member of the union (decided by the inverted attribute %s)' % (inv, g[0], g[2], ran), case))
                        if g[2] == 'single' and len(want) <= 1 and ids == want:
                            continue
                    if ik == 'single':
                        ok = (ids == want[:1] and len(want) <= 1) or (len(want) > 1 and len(ids) == 1 and ids[0] in want)
                        if not ok:
                            viol.append(('single-inverse/%s/%s/%s%s' % (vname, 'missing' if not ids else 'wrong', shape(t, want), hctx), 'after loading #%d the single-valued inverse %s holds %s; referrers are %s' % (t, inv, ids, want), case))
                    elif sorted(ids) != want:
                        extra = sorted(set(ids) - set(want))
                        missing = sorted(set(want) - set(ids))
                        cls = 'twice' if len(ids) != len(set(ids)) and not extra and not missing else ('extra' if extra else 'missing')
                        viol.append(('inverse-%s/%s/%s/%s%s' % (cls, vname, inv, shape(t, want), hctx), 'after loading %s#%d (order %s) the inverse %s holds %s; the referrers through %s are %s' % (
                            ''.join('#%d, ' % r for r in pre), t, order, inv, sorted(ids), ran, want), case))
        except drv.Crash as e:
            lz.kill()
            viol.append(('crash/%s/%s/%s' % (e.key()[0], e.key()[1], vname), 'the lazy loader crashed on %r' % e.cmd, dict(case, log=e.log[-600:].decode('latin1'))))
            break
    return viol, n


def replay(path):
    obj = json.load(open(path))
    c = obj['case']
    lib = build.schema_lib(SCHEMA, 'san')
    _init(lib.dir, 'san')
    print('\n'.join(c['insts']))
    for insts, exp in populations(c['variant'], VARIANTS[c['variant']][1], 'thorough'):
        if insts == c['insts']:
            v, n = run_pop((c['variant'], insts, exp))
            print('expected', exp)
            for k, w, _ in v:
                print(k, '-', w)
            return 1 if v else 0
    print('population not in the space')
    return 2


def main():
    args = common.parse_args(sys.argv[1:])
    if args.replay:
        sys.exit(replay(args.replay))
    chk = common.Check(PID, args.tier, deadline_s=args.deadline)
    lib = build.schema_lib(SCHEMA, 'san')
    chk.rule = ('programs: 7 INVERSE shapes (SET inverse over a single attribute, single-valued inverse, BAG inverse over an aggregate attribute, two inverses onto the same entity through different '
                'attributes, two inverses onto different entities, inverse inherited from a supertype, referrer subtypes and look-alike non-referrers) in one schema; inputs: ALL populations with '
                '1-2 targets and 0-3 referrers where every reference attribute is target 1, target 2 or unset and aggregate attributes hold every sub-multiset of size <= 2; every target loaded, in '
                'both orders; state = (population, load order), transition = one loadInstance; oracle = referrers computed from the population')
    chk.assumptions = ['a single-valued inverse with several referrers may hold any one of them', 'the inverse attributes are read through SDAI_Application_instance::getInvAttrs()']
    jobs = []
    for vname, (decl, desc) in VARIANTS.items():
        for insts, exp in populations(vname, desc, args.tier):
            jobs.append((vname, insts, exp))
    with mp.get_context('fork').Pool(common.NCPU, initializer=_init, initargs=(lib.dir, 'san')) as pool:
        res = pool.map(run_pop, jobs, 16)
    for (vname, insts, exp), (viol, n) in zip(jobs, res):
        chk.count(states=1, transitions=max(1, n))
        chk.cls(vname)
        if not viol:
            chk.outcome('exact')
            if len(insts) > 2:
                chk.sample({'variant': vname, 'insts': insts, 'expected': {str(k): v for k, v in exp.items()}}, maxn=6)
        for k, w, case in viol:
            chk.outcome(k.split('/')[0])
            chk.violation('%s/%s' % (PID, k), w, case)
    chk.bounds = {'populations': len(jobs), 'variants': len(VARIANTS)}
    if chk.outcomes.get('exact', 0) == 0:
        chk.harness_error('vacuous: %s' % dict(chk.outcomes))
    sys.exit(chk.finish())


if __name__ == '__main__':
    main()
