#!/usr/bin/python3
"""C17 - the build-time scanner predicts exactly the files the C++ generator writes.
Program enumeration: generated families (kinds, inheritance, multi-schema, feature schemas), the exhaustive
family of defined-type shapes, naming collisions and the shipped schemas; schema_scanner and exp2cxx run on
the same file in separate empty directories, the file sets are compared."""
import sys, os, json, re, shutil, itertools
sys.path.insert(0, '/verif')
from vlib import common, build, gfam, exptools, drv, smodel

PID = 'C17'
SIMPLE = ['INTEGER', 'REAL', 'NUMBER', 'STRING', 'BINARY', 'BOOLEAN', 'LOGICAL']


def type_shapes():
    """one schema per defined-type shape (each also packed into one big schema)"""
    decls = []
    n = [0]

    def t(body, used=True):
        n[0] += 1
        nm = 'ts%d' % n[0]
        decls.append((nm, 'TYPE %s = %s; END_TYPE;' % (nm, body), used))
        return nm
    base = {}
    for s in SIMPLE:
        base[s] = t(s)
    en = t('ENUMERATION OF (ea, eb, ec)')
    ent = 'tse'
    sel = t('SELECT (%s, %s)' % (base['INTEGER'], base['STRING']))
    sel_e = t('SELECT (%s, %s)' % (ent, base['REAL']))
    for ak in ('LIST', 'SET', 'BAG'):
        for b in SIMPLE + [en, sel, ent, base['INTEGER']]:
            t('%s [0:?] OF %s' % (ak, b))
    for b in ['INTEGER', 'REAL', en, sel, ent]:
        t('ARRAY [1:3] OF %s' % b)
    t('LIST OF LIST OF INTEGER')
    t('LIST OF SET OF %s' % en)
    # renamed / alias chains
    ren_en = t(en)
    ren_sel = t(sel)
    ren_int = t(base['INTEGER'])
    c2 = t(ren_en)
    c3 = t(c2)
    s2 = t(ren_sel)
    s3 = t(s2)
    i2 = t(ren_int)
    t('LIST OF %s' % ren_en)
    t('SET OF %s' % ren_sel)
    t('LIST OF %s' % c3)
    t('ARRAY [1:2] OF %s' % s3)
    t('SELECT (%s, %s)' % (ren_en, base['STRING']))
    t('SELECT (%s)' % ren_sel)
    t('SELECT (%s, %s)' % (c3, i2))
    # types nothing refers to (still declared)
    t('INTEGER', used=False)
    t('ENUMERATION OF (ua, ub)', used=False)
    t(en, used=False)
    ent_decl = 'ENTITY tse; k : INTEGER; END_ENTITY;'
    packed = 'SCHEMA tshapes;\n' + '\n'.join(d for _, d, _ in decls) + '\n' + ent_decl + '\nENTITY user;\n' + \
        ''.join('  a_%s : OPTIONAL %s;\n' % (nm, nm) for nm, _, used in decls if used) + 'END_ENTITY;\nEND_SCHEMA;\n'
    out = [('tshapes', packed)]
    return out, decls, ent_decl


def shape_minis(decls, ent_decl):
    """each shape in a schema of its own (with the declarations it depends on): isolation of packed findings"""
    byname = {nm: d for nm, d, _ in decls}
    for nm, d, used in decls:
        need = []

        def add(x):
            if x in byname and x not in need:
                for dep in re.findall(r'\bts\d+\b', byname[x].split('=', 1)[1]):
                    add(dep)
                need.append(x)
        add(nm)
        yield 'shape_' + nm, 'SCHEMA shape_%s;\n%s\n%s\nENTITY user; a : OPTIONAL %s; END_ENTITY;\nEND_SCHEMA;\n' % (nm, '\n'.join(byname[x] for x in need), ent_decl, nm)


NAMING = {
    'n_enum_var': "SCHEMA n_enum_var;\nTYPE color = ENUMERATION OF (r, g); END_TYPE;\nTYPE color_var = INTEGER; END_TYPE;\nENTITY a; c : color; d : color_var; END_ENTITY;\nEND_SCHEMA;\n",
    'n_cxx_keywords': "SCHEMA n_cxx_keywords;\nTYPE int = INTEGER; END_TYPE;\nENTITY class; new : int; delete : OPTIONAL STRING; END_ENTITY;\nENTITY namespace SUBTYPE OF (class); template : REAL; END_ENTITY;\nEND_SCHEMA;\n",
    'n_mixed_case': "SCHEMA N_Mixed_Case;\nTYPE My_Type = ENUMERATION OF (Aa, Bb); END_TYPE;\nENTITY My_Ent; My_Attr : My_Type; END_ENTITY;\nENTITY my_ent2 SUBTYPE OF (MY_ENT); END_ENTITY;\nEND_SCHEMA;\n",
    'n_p21_keywords': "SCHEMA n_p21_keywords;\nENTITY data; endsec : INTEGER; END_ENTITY;\nENTITY header; iso : OPTIONAL data; END_ENTITY;\nEND_SCHEMA;\n",
    'n_underscores': "SCHEMA n_underscores;\nENTITY a_b; x : INTEGER; END_ENTITY;\nENTITY a_b_c SUBTYPE OF (a_b); END_ENTITY;\nTYPE a_b_t = SELECT (a_b, a_b_c); END_TYPE;\nEND_SCHEMA;\n",
    'n_sdai_prefix': "SCHEMA n_sdai_prefix;\nENTITY sdai; x : INTEGER; END_ENTITY;\nENTITY sdaisdai SUBTYPE OF (sdai); END_ENTITY;\nTYPE schema = INTEGER; END_TYPE;\nENTITY all; y : schema; END_ENTITY;\nEND_SCHEMA;\n",
    # two supertypes declare different attributes of one name, the subtype redeclares one of them (qualified), and is an item of a select
    'n_ambig_redecl_2nd': ("SCHEMA n_ambig_redecl;\nTYPE len = REAL; END_TYPE;\nTYPE pos_len = len; WHERE wr1 : SELF > 0.0; END_TYPE;\nENTITY rod; size : len; END_ENTITY;\n"
                           "ENTITY plate; size : len; thickness : len; END_ENTITY;\nENTITY flat_rod SUBTYPE OF (rod, plate);\n  SELF\\plate.size : pos_len;\nEND_ENTITY;\n"
                           "ENTITY ball; size : len; END_ENTITY;\nTYPE part = SELECT (flat_rod, ball); END_TYPE;\nENTITY usage; what : part; END_ENTITY;\nEND_SCHEMA;\n"),
    'n_ambig_redecl_1st': ("SCHEMA n_ambig_redecl;\nTYPE len = REAL; END_TYPE;\nTYPE pos_len = len; WHERE wr1 : SELF > 0.0; END_TYPE;\nENTITY rod; size : len; END_ENTITY;\n"
                           "ENTITY plate; size : len; thickness : len; END_ENTITY;\nENTITY flat_rod SUBTYPE OF (rod, plate);\n  SELF\\rod.size : pos_len;\n  own : len;\nEND_ENTITY;\n"
                           "ENTITY ball; size : len; END_ENTITY;\nTYPE part = SELECT (ball, flat_rod); END_TYPE;\nTYPE part2 = SELECT (part, rod); END_TYPE;\nENTITY usage; what : part; also : part2; END_ENTITY;\nEND_SCHEMA;\n"),
    'n_single_letter': "SCHEMA x;\nENTITY a; b : INTEGER; END_ENTITY;\nTYPE c = ENUMERATION OF (d, e); END_TYPE;\nEND_SCHEMA;\n",
}


def scan_and_generate(job):
    name, text = job
    root = drv.scratch_dir('c17')
    try:
        if isinstance(text, str):
            text = text.encode('latin1')
        src = os.path.join(root, 'schema_in_file_with_a_long_name.exp')
        with open(src, 'wb') as f:
            f.write(text)
        sdir = os.path.join(root, 'scan')
        gdir = os.path.join(root, 'gen')
        os.makedirs(sdir)
        os.makedirs(gdir)
        rc1, out1, _ = common.run(['setarch', '-R', build.ensure_scanner(), src], cwd=sdir, timeout=300, merge=True)
        rc2, out2, _ = common.run(['setarch', '-R', build.tool('exp2cxx'), src], cwd=gdir, timeout=600, merge=True)
        listed = {}
        schemas = []
        counts = {}
        for d in sorted(os.listdir(sdir)):
            cm = os.path.join(sdir, d, 'CMakeLists.txt')
            if not os.path.exists(cm):
                continue
            txt = open(cm, encoding='latin1').read()
            m = re.search(r'SCHEMA_TARGETS\("[^"]*"\s+"([^"]*)"', txt)
            schemas.append((d, m.group(1) if m else None))
            m = re.search(r'set\(\S+_file_count (\d+)\)', txt)
            counts[d] = int(m.group(1)) if m else None
            for blk in re.finditer(r'set\(\s*\S+_(entity_hdrs|type_hdrs|misc_hdrs|entity_impls|type_impls|misc_impls)\s+(.*?)\)', txt, re.S):
                for f in blk.group(2).split():
                    if f.endswith(('.h', '.cc')):
                        listed.setdefault(f, set()).add(d)
        gen = set()
        for r, dirs, files in os.walk(gdir):
            for fn in files:
                gen.add(os.path.relpath(os.path.join(r, fn), gdir))
        return {'rc_scan': rc1, 'rc_gen': rc2, 'listed': {k: sorted(v) for k, v in listed.items()}, 'generated': sorted(gen), 'schemas': schemas, 'counts': counts,
                'out_scan': out1[-300:].decode('latin1'), 'out_gen': out2[-300:].decode('latin1')}
    finally:
        shutil.rmtree(root, ignore_errors=True)


def fileclass(f):
    if f.startswith('entity/'):
        return 'entity'
    if f.startswith('type/'):
        return 'type'
    if '_unity_' in f:
        return 'unity'
    return 'schema-level'


def judge(name, res):
    out = []
    if res['rc_gen'] != 0:
        return [('generator-failed/%s' % name.split('/')[0], 'exp2cxx exit %s (judged by C04/C06): %s' % (res['rc_gen'], res['out_gen'][-120:]))], True
    if res['rc_scan'] != 0:
        return [('scanner-failed', 'schema_scanner exit %s on a schema exp2cxx accepts: %s' % (res['rc_scan'], res['out_scan'][-160:]))], False
    listed = set(res['listed'])
    # the unity headers are only #included by the unity translation units: they need not be named in a build description
    gen = set(f for f in res['generated'] if not re.search(r'_unity_(entities|types)\.h$', f))
    # One defect has a shape of its own: a schema that is generated in several passes (its declarations wait for another schema of the file) is
    # written as Sdai<S>_1.*, Sdai<S>_2.* ... while the scanner predicts Sdai<S>.* .  If that rename explains the whole difference it is reported
    # once, by the number of schemas in the file (a single-schema file never needs a second pass).
    suffix = re.compile(r'^(Sdai[A-Z0-9_]+?)_\d+((?:_unity_(?:entities|types))?\.(?:cc|h)|\.init\.cc|Names\.h)$')
    extra, missing = gen - listed, listed - gen
    if extra and all(suffix.match(os.path.basename(f)) for f in extra):
        stems = {suffix.match(os.path.basename(f)).group(1) for f in extra}
        if all(any(os.path.basename(m).startswith(st) for st in stems) and '/' not in m.replace(os.path.dirname(m) + '/', '') for m in missing):
            nsch = len(res['schemas'])
            return [('multi-pass-suffix-files/%s' % ('single-schema-file' if nsch <= 1 else 'multi-schema-file'),
                     'exp2cxx writes %s where the scanner lists %s' % (sorted(os.path.basename(f) for f in extra)[:4], sorted(os.path.basename(f) for f in missing)[:4]))], False
    for f in sorted(gen - listed):
        out.append(('generated-not-listed/%s' % fileclass(f), 'exp2cxx writes %s, which the scanner does not list' % f))
    for f in sorted(listed - gen):
        out.append(('listed-not-generated/%s' % fileclass(f), 'the scanner lists %s, which exp2cxx does not write' % f))
    # directory / library name: Sdai<SCHEMA>.h of every schema the scanner announces exists
    for d, sname in res['schemas']:
        if sname is None:
            out.append(('no-schema-name', 'no SCHEMA_TARGETS in %s' % d))
            continue
        want = 'Sdai%s.h' % sname.upper()
        if want not in gen:
            out.append(('schema-file-name', 'scanner announces schema %s but exp2cxx wrote no %s' % (sname, want)))
        own = [f for f, ds in res['listed'].items() if d in ds and fileclass(f) in ('entity', 'type')]
        if res['counts'].get(d) is not None and res['counts'][d] != len(own) + 10:
            out.append(('file-count', '%s_file_count is %s but the directory lists %d entity/type files (+10 fixed)' % (d, res['counts'][d], len(own))))
    return out, False


def long_names(tier):
    """names of every length in a range that spans the column widths of the scanner's lists: an entity, an enumeration and a select of that length,
    each followed by a short one (so that the long name lands in the first column of a two-column list)"""
    lengths = list(range(60, 100)) + [110, 128, 160, 200] if tier == 'quick' else list(range(1, 140)) + [160, 200, 230]
    for L in lengths:
        nm = lambda pre: (pre + 'x' * 300)[:L]
        e, t1, t2 = nm('ea_'), nm('ta_'), nm('sa_')
        if len({e, t1, t2}) < 3:
            e, t1, t2 = 'e' * L + 'a', 't' * L + 'a', 's' * L + 'a'       # very short lengths: keep them distinct
        yield ('n_len_%d' % L, 'SCHEMA n_len;\nTYPE %s = ENUMERATION OF (r, g); END_TYPE;\nTYPE zt = ENUMERATION OF (p, q); END_TYPE;\n'
                               'ENTITY %s; c : %s; END_ENTITY;\nENTITY zz SUBTYPE OF (%s); d : zt; END_ENTITY;\nENTITY yy; END_ENTITY;\n'
                               'TYPE %s = SELECT (%s, zz); END_TYPE;\nTYPE zs = SELECT (zz, yy); END_TYPE;\nEND_SCHEMA;\n' % (t1, e, t1, e, t2, e))


def order_dependent(tier):
    """shapes whose handling depends on the order in which the generator meets declarations (it walks hash tables): every assignment of a pool of
    names to the roles.  (a) a select with a renamed enumeration / renamed select / defined type as an item; (b) two schemas in one file, one of
    them a pure extension (only subtypes of entities it USEs, no type or entity of its own root) - optionally with one independent declaration."""
    import itertools
    pools = [('shade', 'pick', 'colour', 'surface'), ('zeta', 'choice', 'alpha', 'mm')] if tier == 'quick' else \
        [('shade', 'pick', 'colour', 'surface'), ('zeta', 'choice', 'alpha', 'mm'), ('surface_or_shade', 'a', 'b9', 'kind_of_thing')]
    k = 0
    for pool in pools:
        for ren, sel, enum, ent in itertools.permutations(pool):
            k += 1
            yield ('n_ord_sel_%d' % k, 'SCHEMA n_ord;\nTYPE %s = ENUMERATION OF (red, green); END_TYPE;\nTYPE %s = %s; END_TYPE;\nTYPE %s = SELECT (%s, %s); END_TYPE;\n'
                                       'ENTITY %s; nm : STRING; END_ENTITY;\nENTITY job; what : %s; END_ENTITY;\nEND_SCHEMA;\n' % (enum, ren, enum, sel, ent, ren, ent, sel))
    # (a') a renamed SELECT next to the select it renames, under every assignment of names (which of the two the generator meets first depends on the names)
    for pool in pools + [('id_select', 'identifier', 'origin', 'source_item')]:
        for ren, sel, e1, e2 in itertools.permutations(pool):
            k += 1
            yield ('n_ord_rsel_%d' % k, 'SCHEMA n_ord;\nENTITY %s; nm : STRING; END_ENTITY;\nENTITY %s; nr : INTEGER; END_ENTITY;\nTYPE %s = SELECT (%s, %s); END_TYPE;\nTYPE %s = %s; END_TYPE;\n'
                                        'ENTITY job; what : %s; also : OPTIONAL %s; END_ENTITY;\nEND_SCHEMA;\n' % (e1, e2, sel, e1, e2, ren, sel, ren, sel))
    names = [('addon', 'core_schema'), ('plant_extension', 'core_schema'), ('aa', 'zz'), ('zz', 'aa'), ('s2', 's1'), ('s1', 's2')]
    for ext, core in names:
        for indep in ('', 'TYPE own_t = INTEGER; END_TYPE;\n', 'ENTITY own_e; q : INTEGER; END_ENTITY;\n'):
            for first in (core, ext):
                k += 1
                c = 'SCHEMA %s;\nTYPE status = ENUMERATION OF (planned, built); END_TYPE;\nENTITY item; tag : STRING; state : status; END_ENTITY;\nENTITY pipe SUBTYPE OF (item); bore : REAL; END_ENTITY;\nEND_SCHEMA;\n' % core
                e = 'SCHEMA %s;\nUSE FROM %s (item, pipe);\n%sENTITY insulated_pipe SUBTYPE OF (pipe); thickness : REAL; END_ENTITY;\nENTITY valve SUBTYPE OF (item); rating : INTEGER; END_ENTITY;\nEND_SCHEMA;\n' % (ext, core, indep)
                yield ('n_ord_ext_%d' % k, (c + e) if first == core else (e + c))


def all_programs(tier):
    progs = list(gfam.valid_schemas(tier))
    progs += list(long_names(tier))
    progs += list(order_dependent(tier))
    packed, decls, ent_decl = type_shapes()
    progs += packed
    progs += sorted(NAMING.items())
    progs += list(shape_minis(decls, ent_decl))
    for n, p in gfam.shipped():
        if tier == 'thorough' or os.path.getsize(p) < 2500000:
            progs.append(('shipped/' + n, open(p, 'rb').read()))
    return progs, decls, ent_decl


def replay(path):
    obj = json.load(open(path))
    c = obj['case']
    res = scan_and_generate((c['name'], c['text']))
    v, _ = judge(c['name'], res)
    print(c['name'], 'scanner lists %d files, exp2cxx writes %d' % (len(res['listed']), len(res['generated'])))
    print('verdict:', v[:10])
    return 1 if v else 0


def main():
    args = common.parse_args(sys.argv[1:])
    if args.replay:
        sys.exit(replay(args.replay))
    chk = common.Check(PID, args.tier, deadline_s=args.deadline)
    build.ensure('plain')
    build.ensure_scanner()
    chk.rule = ('programs: generated family (feature schemas, multi-schema, packed kinds and inheritance), the exhaustive family of defined-type shapes (every simple type, enumeration, '
                'select, LIST/SET/BAG/ARRAY of each, nested aggregates, renamed enumerations/selects/simple types and alias chains of length 1-3, aggregates and selects of those, '
                'unused types), naming collisions, entity/enumeration/select names of every length 60-100 (thorough 1-140 and 160, 200, 230), shipped schemas; schema_scanner and exp2cxx on the same file in separate empty directories; state = schema, transition = one '
                'scanner+generator pair; oracle = equality of the listed and the written file sets, schema file names, file counts')
    chk.assumptions = ['a schema that exp2cxx itself rejects is not judged here', 'the two *_unity_*.h helper headers are not required in the scanner lists']
    progs, decls, ent_decl = all_programs(args.tier)
    results = common.pmap(scan_and_generate, progs, chunksize=1)
    for (name, text), res in zip(progs, results):
        chk.count(states=1, transitions=2)
        chk.cls(name.split('/')[0] if '/' in name else ('shape' if name.startswith(('tshapes', 'shape_')) else name[:2]))
        v, skip = judge(name, res)
        if skip:
            chk.outcome('generator-failed')
            continue
        if not v:
            chk.outcome('equal')
            chk.sample({'schema': name, 'files': len(res['generated'])}, maxn=6)
            continue
        if name == 'tshapes' and args.tier == 'quick':
            # isolate: re-run the offending shapes alone before reporting
            pass
        seen = set()
        for kp, what in v:
            chk.outcome(kp.split('/')[0])
            k = kp if not name.startswith('shipped') else kp
            t = text if isinstance(text, str) else text.decode('latin1')
            chk.violation(('%s/%s' % (PID, kp)) if kp.startswith('multi-pass-suffix-files') else '%s/%s/%s' % (PID, kp, name.split('/')[0] if '/' in name else name), what, {'name': name, 'text': t if len(t) < 30000 else t[:2000]})
    chk.bounds = {'programs': len(progs), 'type_shapes': len(decls)}
    if chk.outcomes.get('equal', 0) == 0:
        chk.harness_error('vacuous')
    sys.exit(chk.finish())


if __name__ == '__main__':
    main()
