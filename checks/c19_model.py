"""C19 reference model: EXPRESS aggregate semantics (ISO 10303-11 clause 8.2, 12.6.1, 15.x) as
restated by the property.  Pure Python, imports nothing from the code under test.

A model state `ms` is an immutable value:
  ARRAY : tuple of slots (value key or None = unset), slot k holds index bound_1 + k
  LIST  : tuple of (position, value key) pairs sorted by position (positions are EXPRESS
          indices, LOINDEX = 1).  A positional map and not a plain list because the only
          mutator the package offers is `x[i] = v`; see `_judge_set_list` for what is judged.
  BAG   : sorted tuple of value keys (multiset)
  SET   : sorted tuple of distinct value keys (set)

A value is given to the model as (vk, fault): vk = value key ('a', 'b', 'c'; equal values
have equal keys) and fault = None for a value of the declared base type, else the reason
why it is not one ('indeterminate' for None).

judge() answers (verdict, reason, expect):
  LEGAL    : EXPRESS allows the operation -> the container must accept it
  ILLEGAL  : EXPRESS forbids it           -> the container must raise
  UNJUDGED : the property sentence leaves room; either behaviour is tolerated (weaker reading)
`reason` is a value-independent label used in finding keys.
"""

LEGAL, ILLEGAL, UNJUDGED = 'legal', 'illegal', 'unjudged'

QUERIES = ('bound_1', 'bound_2', 'get_lobound', 'get_hibound', 'get_loindex', 'get_hiindex',
           'get_size', 'get_value_unique')


def ctor_verdict(kind, b1, b2):
    """8.2.1: ARRAY needs two determinate integer bounds, bound_1 <= bound_2 (any sign).
    8.2.2-8.2.4: LIST/BAG/SET bound_1 >= 0, bound_2 >= bound_1 or indeterminate (None)."""
    if b1 is None:
        return ILLEGAL, 'indeterminate-lower-bound'
    for b in (b1, b2):
        if b is not None and (not isinstance(b, int) or isinstance(b, bool)):
            return ILLEGAL, 'non-integer-bound'
    if kind == 'ARRAY':
        if b2 is None:
            return ILLEGAL, 'indeterminate-upper-bound'
        if b1 > b2:
            return ILLEGAL, 'bound_1-greater-than-bound_2'
        return LEGAL, 'bounds-ok'
    if b1 < 0:
        return ILLEGAL, 'negative-bound_1'
    if b2 is not None and b1 > b2:
        return ILLEGAL, 'bound_1-greater-than-bound_2'
    return LEGAL, 'bounds-ok'


class Model:
    def __init__(self, kind, b1, b2, unique=False, optional=False):
        self.kind, self.b1, self.b2 = kind, b1, b2
        self.unique, self.optional = bool(unique), bool(optional)

    # ------------------------------------------------------------------ states
    def initial(self):
        if self.kind == 'ARRAY':
            return (None,) * (self.b2 - self.b1 + 1)
        return ()

    def size(self, ms):
        return len(ms)

    # ------------------------------------------------------------------ judging
    def judge(self, ms, op, vals):
        t = op[0]
        if t == 'set':
            vk, fault = vals[op[2]]
            if self.kind == 'ARRAY':
                return self._judge_set_array(ms, op[1], vk, fault)
            return self._judge_set_list(ms, op[1], vk, fault)
        if t == 'get':
            if self.kind == 'ARRAY':
                return self._judge_get_array(ms, op[1])
            return self._judge_get_list(ms, op[1])
        if t == 'add':
            vk, fault = vals[op[1]]
            return self._judge_add(ms, vk, fault)
        raise ValueError(op)

    @staticmethod
    def _value_reasons(fault):
        if fault == 'indeterminate':
            return ['indeterminate-value']
        if fault:
            return [fault]
        return []

    def _judge_set_array(self, ms, i, vk, fault):
        lo, hi = self.b1, self.b2
        reasons, unj = [], None
        inb = lo <= i <= hi
        if i < lo:
            reasons.append('index-below-lower-bound')
        elif i > hi:
            reasons.append('index-above-upper-bound')
        if fault == 'indeterminate':
            if self.optional:
                # 8.2.1 e) an OPTIONAL array may hold ? at an index, so `x[i] = None` is
                # arguably legal; the property sentence only speaks about READING unset
                # elements -> weaker reading: not judged.
                unj = 'indeterminate-into-optional-array'
            else:
                reasons.append('indeterminate-into-non-optional-array')
        elif fault:
            reasons.append(fault)
        elif self.unique and inb:
            k = i - lo
            if any(x == vk for j, x in enumerate(ms) if j != k):
                reasons.append('duplicate-in-unique')
            elif ms[k] == vk:
                # Re-assigning an equal value to the SAME index leaves a duplicate-free array
                # (legal in EXPRESS), but the package's own test-suite demands a rejection
                # (test_list_unique) -> intended meaning ambiguous: not judged.
                unj = 'same-value-same-index-in-unique'
        if reasons:
            return ILLEGAL, reasons[0], None
        if unj:
            return UNJUDGED, unj, None
        return LEGAL, 'index-in-bounds', None

    def _judge_get_array(self, ms, i):
        lo, hi = self.b1, self.b2
        if i < lo:
            return ILLEGAL, 'index-below-lower-bound', None
        if i > hi:
            return ILLEGAL, 'index-above-upper-bound', None
        v = ms[i - lo]
        if v is None:
            if self.optional:
                return LEGAL, 'unset-element-of-optional-array', ('indeterminate',)
            return ILLEGAL, 'unset-element-of-non-optional-array', None
        return LEGAL, 'set-element', ('value', v)

    def _judge_set_list(self, ms, i, vk, fault):
        """LIST [b1:b2]: EXPRESS indices run from 1 (LOINDEX) to SIZEOF; the list can never
        have an index above b2.  `x[i] = v` is the only mutator the package has, so it is
        both 'replace element i' and the only way to grow the list (ISO 10303-11 15.11
        EXAMPLE: `a[-3][1][1] := 2; -- places a value in the list`).
        Judged LEGAL : i holds an element (replace) or i is the first free index >= 1
                       (for a gap-free list that is SIZEOF+1 <= b2: append).
        Judged ILLEGAL: i < 1, i > b2, value not of the base type / indeterminate,
                       duplicate of an element at another index under UNIQUE.
        UNJUDGED     : a write that would leave a gap (1 <= i <= b2, i beyond the first free
                       index) -- strict EXPRESS has no sparse lists, the package's tests use
                       them on purpose (test_create_unbounded_list) -> weaker reading."""
        pos = dict(ms)
        reasons, unj = [], None
        inb = i >= 1 and (self.b2 is None or i <= self.b2)
        if i < 1:
            reasons.append('index-below-1')
        elif not inb:
            reasons.append('index-above-upper-bound')
        reasons += self._value_reasons(fault)
        if not fault and self.unique and inb:
            if any(v == vk for p, v in pos.items() if p != i):
                reasons.append('duplicate-in-unique')
            elif pos.get(i) == vk:
                unj = 'same-value-same-index-in-unique'
        if reasons:
            return ILLEGAL, reasons[0], None
        if unj:
            return UNJUDGED, unj, None
        if i in pos:
            return LEGAL, 'replace-existing-element', None
        first_free = 1
        while first_free in pos:
            first_free += 1
        if i == first_free:
            return LEGAL, 'first-free-index', None
        return UNJUDGED, 'gap-creating-index', None

    def _judge_get_list(self, ms, i):
        pos = dict(ms)
        if i in pos:
            return LEGAL, 'existing-element', ('value', pos[i])
        # No element there.  EXPRESS 12.6.1 yields ? for such an index; the property asks for
        # "indices within bounds".  Weaker reading for LIST: raising or returning None are
        # both fine, returning a real value (a phantom element) is not.
        if i < 1:
            return ILLEGAL, 'index-below-1', ('none-tolerated',)
        if self.b2 is not None and i > self.b2:
            return ILLEGAL, 'index-above-upper-bound', ('none-tolerated',)
        return ILLEGAL, 'no-element-at-index', ('none-tolerated',)

    def _judge_add(self, ms, vk, fault):
        reasons = self._value_reasons(fault)
        if self.kind == 'SET' and not fault and vk in ms:
            # s + e with e already in s is the same set: legal no-op in EXPRESS; "no duplicate
            # in SET" only requires that the set does not grow -> acceptance not judged, the
            # state must stay the same.
            if reasons:
                return ILLEGAL, reasons[0], None
            return UNJUDGED, 'value-already-in-set', None
        if self.b2 is not None and len(ms) >= self.b2:
            reasons.append('would-exceed-upper-bound')
        if reasons:
            return ILLEGAL, reasons[0], None
        return LEGAL, 'size-below-upper-bound', None

    # ------------------------------------------------------------------ applying
    def apply(self, ms, op, vals):
        """New model state after an ACCEPTED operation that was not judged ILLEGAL."""
        t = op[0]
        if t == 'get':
            return ms
        if t == 'set':
            i = op[1]
            vk, fault = vals[op[2]]
            if fault == 'indeterminate':
                vk = None
            if self.kind == 'ARRAY':
                k = i - self.b1
                return ms[:k] + (vk,) + ms[k + 1:]
            pos = dict(ms)
            pos[i] = vk
            return tuple(sorted(pos.items()))
        if t == 'add':
            vk, fault = vals[op[1]]
            if self.kind == 'SET' and vk in ms:
                return ms
            return tuple(sorted(ms + (vk,)))
        raise ValueError(op)

    # ------------------------------------------------------------------ queries
    def expected_queries(self, ms):
        """name -> set of acceptable normalised answers (ints / None / 'T' 'F' 'U')."""
        b1, b2 = self.b1, self.b2
        e = {'bound_1': {b1}, 'bound_2': {b2}, 'get_lobound': {b1}, 'get_hibound': {b2}}
        if self.kind == 'ARRAY':
            e['get_loindex'] = {b1}
            e['get_hiindex'] = {b2}
            e['get_size'] = {b2 - b1 + 1}
            vals = [x for x in ms if x is not None]
            dup = len(set(vals)) < len(vals)
            if None not in ms:
                e['get_value_unique'] = {'F'} if dup else {'T'}
            elif dup:
                # 15.29 b) and c) both apply ([a, a, ?]); their precedence is not stated.
                e['get_value_unique'] = {'F', 'U'}
            else:
                e['get_value_unique'] = {'U'}
            return e
        n = len(ms)
        e['get_loindex'] = {1}
        e['get_hiindex'] = {n}          # 15.11 b) number of elements
        e['get_size'] = {n}             # 15.22 b)
        if self.kind == 'LIST':
            vals = [v for _, v in ms]
            dup = len(set(vals)) < len(vals)
            ans = {'F'} if dup else {'T'}
            dense = [p for p, _ in ms] == list(range(1, n + 1))
            if not dense:
                ans = ans | {'U'}       # list with gaps (package-specific): not judged strictly
            e['get_value_unique'] = ans
        elif self.kind == 'BAG':
            e['get_value_unique'] = {'F'} if len(set(ms)) < n else {'T'}
        else:
            e['get_value_unique'] = {'T'}
        return e
