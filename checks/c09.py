#!/usr/bin/python3
"""C09 - Part 21 literals are read to their value and written in conforming form.
Classical exhaustive enumeration: ALL strings up to length L over each kind's alphabet, in every
delimiter context, fed to STEPattribute::STEPread (attrdrv); plus writer grids."""
import sys, os, json, re, itertools, math, struct
sys.path.insert(0, '/verif')
from vlib import common, build, smodel, p21ref, drv
import multiprocessing as mp

PID = 'C09'
CONTEXTS = [',', ')', ' ,', ' )', '/*c*/,', '\n,']
LONG_MAX = 2 ** 63 - 1

KINDS = {
    # kind: (entity (OPTIONAL attribute), alphabet, quick L, thorough L)
    'INTEGER': ('O_INTE', '019+-.Ee ', 5, 6),
    'REAL': ('O_REAL', '019+-.Ee', 5, 7),
    'NUMBER': ('O_NUMB', '019+-.E', 4, 6),
    'STRING': ('O_STRI', "'a\\SX20 ", 5, 7),
    'BINARY': ('O_BIN', '"013AFGa', 5, 6),
    'BOOLEAN': ('O_BOO', '.TFUt_1 ', 4, 6),
    'LOGICAL': ('O_LOGI', '.TFUu_1 ', 4, 6),
    'ENUM': ('O_ENUM', '.REDrd_1 ', 5, 6),
    'REF': ('O_REF', '#@0129- ', 4, 6),
}
EXTRA = {
    'INTEGER': ['2147483647', '2147483648', '-2147483648', '-2147483649', '4294967296', '9223372036854775806', '9223372036854775807',
                '9223372036854775808', '-9223372036854775807', '-9223372036854775808', '-9223372036854775809', '18446744073709551616',
                '99999999999999999999', '-99999999999999999999', '000000000000000000000007', '+0', '-0'] +
               [str(10 ** k + d) for k in range(1, 21) for d in (-1, 0, 1)],
    'REAL': ['1.7976931348623157E308', '1.7976931348623159E308', '1.8E308', '1.E309', '-1.E309', '1.E400', '2.2250738585072014E-308', '4.9E-324',
             '1.E-400', '123456789012345678.', '0.1', '1.0000000000000002', '9.99999999999999', '1.17549435E-38', '1.E+5', '1.E-5', '-0.', '+0.0',
             '00000000000000000000001.5', '1.' + '0' * 40, '1.E0000000005'] + ['1.E%d' % e for e in range(-330, 331, 15)] +
            ['1.2345678901234567E%d' % e for e in (-300, -100, -1, 0, 1, 100, 300)],
    'STRING': ["'\\X2\\00E9\\X0\\'", "'\\X4\\0001F600\\X0\\'", "'\\X\\E9'", "'\\S\\a'", "'\\PA\\'", "'\\\\'", "''''", "'it''s'", "'\\X2\\00E\\X0\\'",
               "'\\X2\\00E9'", "'\\X4\\0001F60\\X0\\'", "'\\X\\G9'", "'\\Pa\\'", "'\\N\\'", "'a' 'b'", "'a/*c*/b'", "'#1,(;)'",
               # the ISO 8859 escape at the very beginning, in the middle and at the end of the content, its character an apostrophe or a letter
               "'\\S\\'y'", "'x\\S\\'y'", "'xy\\S\\''", "'\\S\\''", "'\\S\\ay'", "'\\S\\'\\S\\'y'", "'\\S\\a'", "'ab\\S\\a'"],
    'BINARY': ['"0ABCDEF0123456789"', '"3FFFFFFFF"', '"0' + 'A' * 100 + '"'],
    'ENUM': ['.RED.', '.GREEN.', '.BLUE.', '.red.', '.Red.', 'RED', '.PURPLE.', '.RE.', '.REDD.', '.RED', 'RED.', '..', '.GREEN', '. RED.', '.RED .'],
    'BOOLEAN': ['.T.', '.F.', '.U.', '.TRUE.', '.FALSE.', '.t.', 'T', 'F'],
    'LOGICAL': ['.T.', '.F.', '.U.', '.UNKNOWN.', '.u.', 'U'],
    'REF': ['#1', '#2', '#5', '#3', '#77', '#0', '#01', '#1 ', '# 1', '#-1', '#+1', '#1.', '1', '@1', '#', '##1', '#99999999999', '#2147483648',
            # numbers that equal an existing id modulo a power of two (a reference is not looked up in a narrower integer than it was read in)
            '#65537', '#4294967297', '#4294967298', '#4294967301', '#8589934593', '#18446744073709551617', '#18446744073709551621', '#2147483649'],
}
ENUM_ITEMS = ['RED', 'GREEN', 'BLUE']
LIB_REAL = re.compile(r'[+-]?(\d+\.?\d*|\.\d+)([eE][+-]?\d+)?$')


def oracle(kind, tok):
    """-> (cls, value) ; cls in 'grammar' (must be accepted with value), 'liberal' (error OR value), 'invalid' (must raise an error),
    'unjudged' (range corner the property does not decide), 'empty'"""
    t = tok.strip(' ')
    if t == '':
        return ('empty', None)
    b = t.encode('latin1')
    if kind == 'INTEGER':
        if p21ref.full(p21ref.RE_INT, b):
            v = int(t)
            if -2 ** 63 <= v <= LONG_MAX:
                return ('unjudged', v) if v == LONG_MAX else ('grammar', v)
            return ('invalid', None)      # not representable: must raise an error
        return ('invalid', None)
    if kind in ('REAL', 'NUMBER'):
        if p21ref.full(p21ref.RE_REAL, b) or (kind == 'NUMBER' and p21ref.full(p21ref.RE_INT, b)):
            v = float(t)
            if math.isinf(v):
                return ('invalid', None)
            if v != 0 and abs(v) < 2.2250738585072014e-308:
                return ('unjudged', v)
            if v == 0 and re.search(r'[1-9]', t.split('E')[0]):
                return ('unjudged', v)    # underflow to zero
            if struct.unpack('f', struct.pack('f', v))[0] == 1.1754943508222875e-38 and abs(v - 1.17549435e-38) < 1e-45:
                return ('unjudged', v)
            return ('grammar', v)
        if LIB_REAL.match(t):
            try:
                v = float(t)
            except ValueError:
                return ('invalid', None)
            if math.isinf(v) or (v != 0 and abs(v) < 2.2250738585072014e-308) or (v == 0 and re.search(r'[1-9]', re.split('[eE]', t)[0])):
                return ('unjudged', v)
            return ('liberal', v)
        return ('invalid', None)
    if kind == 'STRING':
        if p21ref.full(p21ref.RE_STR, b):
            return ('grammar', b)
        # properly delimited but with a bad escape inside: verbatim retention is tolerated
        # (an apostrophe is data after '' and, as the grammar's PAGE directive has it, after \S\ ; the reader finds the closing
        #  quote by exactly these two rules, so '\\S\'' is 'delimited, with a bad escape inside' like '\a' is)
        if len(b) >= 2 and b[:1] == b"'" and b[-1:] == b"'" and re.fullmatch(rb"(?:\\S\\'|[^']|'')*", b[1:-1]):
            return ('liberal', b)
        return ('invalid', None)
    if kind == 'BINARY':
        if p21ref.full(p21ref.RE_BIN, b):
            return ('grammar', t[1:-1])
        if re.fullmatch(r'"[0-9A-Fa-f]+"', t):
            return ('liberal', t[1:-1].upper())     # wrong first digit / lower-case hex: verbatim retention is tolerated
        return ('invalid', None)
    if kind in ('BOOLEAN', 'LOGICAL', 'ENUM'):
        items = {'BOOLEAN': ['F', 'T'], 'LOGICAL': ['F', 'T', 'U'], 'ENUM': ENUM_ITEMS}[kind]
        m = re.fullmatch(r'\.([A-Z_][A-Z_0-9]*)\.', t)
        if m:
            return ('grammar', m.group(1)) if m.group(1) in items else ('invalid', None)
        m = re.fullmatch(r'\.?([A-Za-z_][A-Za-z_0-9]*)\.?', t)
        if m and m.group(1).upper() in items:
            return ('liberal', m.group(1).upper())
        return ('invalid', None)
    if kind == 'REF':
        m = re.fullmatch(r'#(\d+)', t)
        if m:
            v = int(m.group(1))
            if v in (1, 2, 5):              # instances of tgt / tgtsub in the support population
                return ('grammar', v)
            return ('invalid', None)        # dangling or wrongly typed reference: an error (property C03)
        m = re.fullmatch(r'#\s*\+?(\d+)', t)
        if m and int(m.group(1)) in (1, 2, 5):
            return ('liberal', int(m.group(1)))
        return ('invalid', None)
    raise ValueError(kind)


def same_value(kind, want, kind_s, val):
    if kind == 'INTEGER':
        return kind_s == 'int' and int(val) == want
    if kind in ('REAL', 'NUMBER'):
        return kind_s == 'real' and float.fromhex(val.decode()) == want
    if kind == 'STRING':
        return kind_s == 'str' and val == want
    if kind == 'BINARY':
        return kind_s == 'bin' and val.decode('latin1').upper() == want.upper() and (val.decode('latin1') == want or True)
    if kind in ('BOOLEAN', 'LOGICAL', 'ENUM'):
        return kind_s == 'enum' and val.decode().split(':', 1)[1] == want
    if kind == 'REF':
        return kind_s == 'ref' and val.decode() == str(want)
    return False


_W = {}


def _init(libdir):
    lib = build.SchemaLib(libdir, 'plain', [])
    d = drv.Driver('attrdrv', lib, 'plain', timeout=60)
    sup = os.path.join(d.dir, 'sup.stp')
    with open(sup, 'w') as f:
        f.write(smodel.file_text('fk', [smodel.inst_text(*i) for i in smodel.SUPPORT_POP]))
    d.cmd('S ' + sup)
    _W['d'] = d
    import atexit
    atexit.register(d.close)


def tokshape(kind, tok):
    """coarse shape of a token for the finding key: digits->9, letters kept by class"""
    t = tok.strip(' ')
    s = re.sub(r'\d+', '9', t)
    if kind in ('STRING',):
        s = re.sub(r'[a-z ]+', 'a', s)
    if len(s) > 14:
        s = s[:14] + '~'
    lead = 'ws+' if tok != t and tok.startswith(' ') else ''
    return lead + s


def run_chunk(job):
    """job = (kind, [tokens]) -> list of violations (key, what, case) + counters"""
    kind, toks = job[:2]
    ctxs = job[2] if len(job) > 2 else CONTEXTS
    d = _W['d']
    d.recycle_if_big()
    ent = KINDS[kind][0]
    viol = []
    counts = {'cases': 0, 'grammar': 0, 'liberal': 0, 'invalid': 0, 'unjudged': 0, 'empty': 0, 'accepted': 0, 'errors': 0}
    try:
        d.cmd('E %s 0' % ent)
        inputs = []
        meta = []
        for tok in toks:
            cls, want = oracle(kind, tok)
            counts[cls] += 1
            for ctx in ctxs:
                inputs.append((tok + ctx))
                meta.append((tok, ctx, cls, want))
        B = 400
        for i in range(0, len(inputs), B):
            line = 'B ' + ' '.join((x.encode('latin1').hex() or '-') for x in inputs[i:i + B])
            ans = d.cmd(line, timeout=120)
            for (tok, ctx, cls, want), a in zip(meta[i:i + B], ans):
                counts['cases'] += 1
                f = a.split()
                if f[0] != b'sev':
                    viol.append(('harness/' + a.decode()[:30], 'driver answer %r' % a, {'kind': kind, 'token': tok, 'context': ctx}))
                    continue
                sev, null, pos, nxt = int(f[1]), int(f[3]), int(f[5]), f[7]
                vk, val = f[9].decode(), (bytes.fromhex(f[10].decode()) if len(f) > 10 else b'')
                text = tok + ctx
                delim_at = len(text) - 1
                case = {'kind': kind, 'token': tok, 'context': ctx}
                shape = tokshape(kind, tok)
                if sev >= 2:
                    counts['accepted'] += 1
                else:
                    counts['errors'] += 1
                unbalanced = (kind == 'STRING' and (tok.count("'") % 2 == 1 or "\\S\\'" in tok)) or (kind == 'BINARY' and tok.count('"') % 2 == 1)
                # the delimiter that follows is never consumed
                if not unbalanced and cls != 'empty' and pos != delim_at and not (kind == 'STRING' and "'" in tok and cls == 'invalid'):
                    viol.append(('delimiter/%s/%s/%s' % (kind, 'consumed' if pos > delim_at else 'stopped-early', shape if cls != 'grammar' else 'in-grammar:' + shape),
                                 'after reading %r the stream is at offset %d, the delimiter is at %d (severity %d)' % (text, pos, delim_at, sev), case))
                if cls == 'grammar':
                    if sev < 2:
                        viol.append(('rejected-in-grammar/%s/%s' % (kind, shape), 'grammar token %r rejected with severity %d' % (tok, sev), case))
                    elif null or not same_value(kind, want, vk, val):
                        viol.append(('wrong-value/%s/%s' % (kind, shape), 'grammar token %r read as %s %r (null=%d), expected %r' % (tok, vk, val, null, want), case))
                elif cls == 'liberal':
                    if sev >= 2 and (null or not same_value(kind, want, vk, val)):
                        viol.append(('lenient-wrong-value/%s/%s' % (kind, shape), 'token %r silently read as %s %r (null=%d), it spells %r' % (tok, vk, val, null, want), case))
                elif cls == 'invalid':
                    if sev >= 2:
                        viol.append(('silently-accepted/%s/%s/%s' % (kind, 'unset' if null else 'value', shape),
                                     'token %r is outside the grammar / not representable but was read with severity %d as %s %r (null=%d)' % (tok, sev, vk, val, null), case))
                elif cls == 'empty':
                    if sev >= 2 and not null:
                        viol.append(('empty-not-unset/%s' % kind, 'empty value for an OPTIONAL attribute read as %r' % val, case))
    except drv.Crash as e:
        k = e.key()
        viol.append(('crash/%s/%s' % k, 'driver crashed in a batch of kind %s' % kind, {'kind': kind, 'tokens': toks[:50]}))
    return viol, counts


def all_tokens(alphabet, L):
    for n in range(1, L + 1):
        for t in itertools.product(alphabet, repeat=n):
            yield ''.join(t)


def writer_checks(chk, lib):
    d = drv.Driver('attrdrv', lib, 'plain', timeout=60)
    try:
        sup = os.path.join(d.dir, 'sup.stp')
        with open(sup, 'w') as f:
            f.write(smodel.file_text('fk', [smodel.inst_text(*i) for i in smodel.SUPPORT_POP]))
        d.cmd('S ' + sup)
        # integers within +-2 of every power of two <= 2^63 and of ten <= 10^18
        ints = set()
        for k in range(0, 64):
            for dlt in (-2, -1, 0, 1, 2):
                for sgn in (1, -1):
                    v = sgn * (2 ** k) + dlt
                    if -2 ** 63 <= v <= LONG_MAX - 1:
                        ints.add(v)
        for k in range(0, 19):
            for dlt in (-2, -1, 0, 1, 2):
                for sgn in (1, -1):
                    ints.add(sgn * 10 ** k + dlt)
        d.cmd('E O_INTE 0')
        for v in sorted(ints):
            a = d.cmd('WI %d' % v)[0].split()
            out = bytes.fromhex(a[1].decode()) if a[1] != b'null' else b''
            chk.count(states=1, transitions=1)
            chk.cls('writer/INTEGER')
            if not p21ref.full(p21ref.RE_INT, out) or int(out) != v:
                chk.violation('%s/writer/INTEGER/%s' % (PID, 'not-in-grammar' if not p21ref.full(p21ref.RE_INT, out) else 'wrong-value'),
                              'integer %d written as %r' % (v, out), {'kind': 'INTEGER', 'value': v})
            else:
                chk.outcome('writer-ok')
        # the same integers as ELEMENTS of an aggregate (the element nodes have read and write routines of their own): every ordered pair of boundary values
        edge = sorted({0, 1, -1, 2 ** 31 - 1, 2 ** 31, -2 ** 31, -2 ** 31 - 1, 2 ** 32, 2 ** 32 + 1, -2 ** 32 - 2, 10 ** 12, -10 ** 15, LONG_MAX - 1, -2 ** 63 + 1})
        for ent in ('O_LIST_INT', 'O_ARRAY_INT'):
            d.cmd('E %s 0' % ent)
            lists = [(a, b) for a in edge for b in edge] if ent == 'O_LIST_INT' else [(a, b, a) for a in edge for b in edge[:5]]
            for vals in lists:
                tok = '(%s)' % ','.join(str(v) for v in vals)
                a = d.cmd('R ' + (tok + ',').encode('latin1').hex())
                f0 = a[0].split()
                out = bytes.fromhex(a[1].split()[1].decode()) if len(a) > 1 else b''
                chk.count(states=1, transitions=1)
                chk.cls('aggregate-element/INTEGER')
                got = None
                if re.fullmatch(rb'\(\s*[-+]?\d+(\s*,\s*[-+]?\d+)*\s*\)', out.strip()):
                    got = tuple(int(x) for x in re.findall(rb'[-+]?\d+', out))
                if int(f0[1]) < 2:
                    chk.violation('%s/aggregate-element/INTEGER/rejected-in-grammar' % PID, 'aggregate %s of %s rejected with severity %s' % (tok, ent, f0[1].decode()), {'kind': 'INTEGER', 'entity': ent, 'token': tok})
                elif got != tuple(vals):
                    big = any(abs(v) >= 2 ** 31 for v in vals)
                    chk.violation('%s/aggregate-element/INTEGER/wrong-value/%s' % (PID, 'beyond-32-bits' if big else 'small'), 'aggregate %s of %s written as %r' % (tok, ent, out), {'kind': 'INTEGER', 'entity': ent, 'token': tok})
                else:
                    chk.outcome('writer-ok')
        # reals m * 10^e
        mant = [1.0, 1.5, 9.99999999999999, 1.00000000000001, 0.1, 2.0 ** -10, 3.141592653589793, 7.0, 123456789012345.0]
        d.cmd('E O_REAL 0')
        for e in range(-300, 301):
            for m in mant:
                for sgn in (1, -1):
                    v = sgn * m * (10.0 ** e)
                    if math.isinf(v) or v == 0 or abs(v) > 1.7976931348622e308:
                        continue
                    a = d.cmd('WR %s' % v.hex())[0].split()
                    out = bytes.fromhex(a[1].decode())
                    chk.count(states=1, transitions=1)
                    chk.cls('writer/REAL')
                    if not p21ref.full(p21ref.RE_REAL, out):
                        chk.violation('%s/writer/REAL/not-in-grammar/%s' % (PID, re.sub(rb'\d+', b'9', out).decode('latin1')[:16]), 'real %r written as %r' % (v, out), {'kind': 'REAL', 'value': v.hex()})
                        continue
                    back = d.cmd('R ' + (out + b',').hex())[0].split()
                    bv = float.fromhex(bytes.fromhex(back[10].decode()).decode())
                    if int(back[1]) < 2 or p21ref.r15(bv) != p21ref.r15(v):
                        chk.violation('%s/writer/REAL/reread-differs' % PID, 'real %r written as %r, read back as %r (sev %s)' % (v, out, bv, back[1].decode()), {'kind': 'REAL', 'value': v.hex()})
                    else:
                        chk.outcome('writer-ok')
        # read -> write -> read of every extra token per kind: the written token is in the grammar and reads back to the same value
        for kind, (ent, _, _, _) in KINDS.items():
            d.cmd('E %s 0' % ent)
            for tok in EXTRA.get(kind, []):
                cls, want = oracle(kind, tok)
                if cls != 'grammar':
                    continue
                if kind in ('REAL', 'NUMBER') and not (1e-300 <= abs(want) <= 1e300 or want == 0):
                    continue      # the writer clause is quantified over exponents -300..300
                a = d.cmd('R ' + (tok + ',').encode('latin1').hex())
                f = a[0].split()
                if int(f[1]) < 2:
                    continue
                out = bytes.fromhex(a[1].split()[1].decode()) if len(a) > 1 and len(a[1].split()) > 1 else b''
                chk.count(states=1, transitions=1)
                chk.cls('writer/' + kind)
                rx = {'INTEGER': p21ref.RE_INT, 'REAL': p21ref.RE_REAL, 'NUMBER': p21ref.RE_REAL, 'STRING': p21ref.RE_STR, 'BINARY': p21ref.RE_BIN,
                      'BOOLEAN': p21ref.RE_ENUM, 'LOGICAL': p21ref.RE_ENUM, 'ENUM': p21ref.RE_ENUM, 'REF': p21ref.RE_REF}[kind]
                if not p21ref.full(rx, out):
                    chk.violation('%s/writer/%s/not-in-grammar/%s' % (PID, kind, tokshape(kind, tok)), '%r read and written back as %r' % (tok, out), {'kind': kind, 'token': tok})
                    continue
                cls2, want2 = oracle(kind, out.decode('latin1'))
                ok = cls2 == 'grammar' and ((p21ref.r15(want2) == p21ref.r15(want)) if kind in ('REAL', 'NUMBER') else want2 == want)
                if not ok:
                    chk.violation('%s/writer/%s/value-changed/%s' % (PID, kind, tokshape(kind, tok)), '%r written back as %r' % (tok, out), {'kind': kind, 'token': tok})
                else:
                    chk.outcome('writer-ok')
        # a second read into the same attribute object answers like a read into a fresh one (differential: no expected value needed)
        for kind, (ent, _, _, _) in KINDS.items():
            d.cmd('E %s 0' % ent)
            toks = [t for t in EXTRA.get(kind, []) if oracle(kind, t)[0] == 'grammar'][:6]
            seconds = ['$', ''] + toks[:3]
            for first in toks[:4]:
                for second in seconds:
                    for delim in (',', ')'):
                        fresh = d.cmd('R ' + (second + delim).encode('latin1').hex())
                        again = d.cmd('R2 %s %s' % ((first + ',').encode('latin1').hex(), (second + delim).encode('latin1').hex()))
                        chk.count(states=1, transitions=2)
                        chk.cls('re-read/' + kind)
                        if [l for l in fresh] != [l for l in again]:
                            what = 'unset' if second == '$' else ('missing' if second == '' else 'value')
                            chk.violation('%s/re-read/%s/after-a-value/%s' % (PID, kind, what), 'reading %r into an attribute that held %r answers %r, into a fresh one %r' % (
                                second + delim, first, b' '.join(again)[:120], b' '.join(fresh)[:120]), {'kind': kind, 'first': first, 'token': second, 'context': delim})
                        else:
                            chk.outcome('re-read-same')
    finally:
        d.close()


def replay(path):
    obj = json.load(open(path))
    case = obj['case']
    fam = smodel.family_K('fk', pairs='core')
    lib = build.schema_lib(fam.express(), 'plain')
    _init(lib.dir)
    if 'first' in case:
        d = _W['d']
        d.cmd('E %s 0' % KINDS[case['kind']][0])
        t2 = (case['token'] + case.get('context', ',')).encode('latin1').hex()
        fresh = d.cmd('R ' + t2)
        again = d.cmd('R2 %s %s' % ((case['first'] + ',').encode('latin1').hex(), t2))
        print('fresh attribute :', fresh)
        print('after reading %r:' % case['first'], again)
        return 1 if fresh != again else 0
    if 'entity' in case:
        d = _W['d']
        d.cmd('E %s 0' % case['entity'])
        a = d.cmd('R ' + (case['token'] + ',').encode('latin1').hex())
        out = bytes.fromhex(a[1].split()[1].decode()) if len(a) > 1 else b''
        print('input %r -> %r, written back as %r' % (case['token'], a[0], out))
        want = tuple(int(x) for x in re.findall(r'[-+]?\d+', case['token']))
        got = tuple(int(x) for x in re.findall(rb'[-+]?\d+', out))
        return 1 if got != want else 0
    if 'token' in case:
        v, c = run_chunk((case['kind'], [case['token']]))
        v = [x for x in v if x[2].get('context') == case.get('context', x[2].get('context'))]
        d = _W['d']
        d.cmd('E %s 0' % KINDS[case['kind']][0])
        print('input %r ->' % (case['token'] + case.get('context', ',')), d.cmd('R ' + (case['token'] + case.get('context', ',')).encode('latin1').hex()))
        print('oracle:', oracle(case['kind'], case['token']))
        print('verdict:', [(k, w) for k, w, _ in v])
        return 1 if v else 0
    print(case)
    return 1


def main():
    args = common.parse_args(sys.argv[1:])
    if args.replay:
        sys.exit(replay(args.replay))
    chk = common.Check(PID, args.tier, deadline_s=args.deadline)
    fam = smodel.family_K('fk', pairs='core')
    lib = build.schema_lib(fam.express(), 'plain')
    li = 2 if args.tier == 'quick' else 3
    chk.rule = ('reader: for each simple kind ALL strings up to length L over the kind\'s alphabet (%s) plus boundary tokens, each in the %d delimiter '
                'contexts %r, read by STEPattribute::STEPread of an OPTIONAL attribute; oracle = grammar recogniser + value function (p21ref) with the '
                'liberal reading for documented leniencies; state = (kind, token, context); writer: integers within 2 of every power of two/ten, reals '
                'm*10^e for e in -300..300 and 9 mantissas, read->write->read of boundary tokens'
                % ({k: (v[1], v[li]) for k, v in KINDS.items()}, len(CONTEXTS), CONTEXTS))
    chk.assumptions = ['a properly quoted string with an unknown escape may be kept verbatim', 'underflowing reals and the in-band null sentinels are not judged',
                       'the empty value and `$` denote an unset OPTIONAL attribute', 'references: only #1 #2 #5 exist with the attribute\'s entity type']
    jobs = []
    for kind, (ent, alpha, lq, lt) in KINDS.items():
        L = lq if args.tier == 'quick' else lt
        toks = list(all_tokens(alpha, L)) + EXTRA.get(kind, [])
        seen = set()
        toks = [t for t in toks if not (t in seen or seen.add(t))]
        chk.bounds[kind] = {'alphabet': alpha, 'max_len': L, 'tokens': len(toks)}
        for i in range(0, len(toks), 1500):
            jobs.append((kind, toks[i:i + 1500]))
    # every comment body up to length 3 over { * / c blank } (not beginning with '/', not containing the closing pair) between the token and its
    # delimiter, for the boundary tokens and all tokens of length <= 2
    bodies = [''.join(b) for n in range(0, 4) for b in itertools.product('*/c ', repeat=n)]
    bodies = [b for b in bodies if not b.startswith('/') and '*/' not in b]
    cctx = ['/*%s*/%s' % (b, dl) for b in bodies for dl in (',', ')')] + [' /*%s*/ ,' % b for b in bodies]
    for kind, (ent, alpha, lq, lt) in KINDS.items():
        toks = list(all_tokens(alpha, 2 if args.tier == 'quick' else 3)) + EXTRA.get(kind, [])
        seen = set()
        toks = [t for t in toks if not (t in seen or seen.add(t)) and '/' not in t]
        chk.bounds[kind]['comment_contexts'] = len(cctx)
        for i in range(0, len(toks), 40):
            jobs.append((kind, toks[i:i + 40], cctx))
    tot = {}
    with mp.get_context('fork').Pool(common.NCPU, initializer=_init, initargs=(lib.dir,)) as pool:
        for job, (viol, counts) in zip(jobs, pool.imap(run_chunk, jobs)):
            kind = job[0]
            chk.count(states=counts['cases'], transitions=counts['cases'])
            for k, v in counts.items():
                tot[kind + '/' + k] = tot.get(kind + '/' + k, 0) + v
            chk.outcome('accepted', counts['accepted'])
            chk.outcome('error', counts['errors'])
            for key, what, case in viol:
                chk.outcome(key.split('/')[0])
                chk.violation('%s/%s' % (PID, key), what, case)
            if chk.deadline.expired():
                chk.cap('deadline reached while enumerating %s' % kind)
                break
    chk.extra['per_kind_counts'] = tot
    for kind in KINDS:
        chk.cls('reader/' + kind, tot.get(kind + '/cases', 0))
        if tot.get(kind + '/grammar', 0) == 0:
            chk.harness_error('no grammar token enumerated for %s' % kind)
    chk.sample({'kind': 'INTEGER', 'token': '+19', 'context': ' ,'})
    chk.sample({'kind': 'REAL', 'token': '1.E-9', 'context': '/*c*/,'})
    writer_checks(chk, lib)
    sys.exit(chk.finish())


if __name__ == '__main__':
    main()
