// Complex-instance seam: builds a STEPcomplex exactly as STEPfile::CreateSubSuperInstance does and
// reports the severity of the result.
//   C <name1> <name2> ...   -> "sev <n> msg <hex of user message>"
#include "drv_common.h"
#include "clstepcore/STEPcomplex.h"

int main( int argc, char ** argv ) {
    SchemaInitFn init = drv_load( argc, argv );
    Registry * reg = new Registry( init );
    fputs( "ready\n", g_out );
    done();
    std::string line;
    while( std::getline( std::cin, line ) ) {
        drv_logreset();
        std::istringstream ls( line );
        std::string cmd;
        ls >> cmd;
        if( cmd == "quit" ) {
            break;
        } else if( cmd == "C" ) {
            std::vector<std::string *> names;
            std::string n;
            while( ls >> n ) {
                names.push_back( new std::string( n ) );
            }
            const std::string ** arr = new const std::string * [names.size() + 1];
            for( size_t i = 0; i < names.size(); i++ ) {
                arr[i] = names[i];
            }
            arr[names.size()] = 0;
            STEPcomplex * sc = new STEPcomplex( reg, arr, 10, "" );
            fprintf( g_out, "sev %d msg %s\n", ( int ) sc->Error().severity(), hexenc( sc->Error().UserMsg() ).c_str() );
            // (not deleted: destruction of a refused instance is not the subject)
        } else {
            fputs( "ERR unknown\n", g_out );
        }
        done();
    }
    fflush( g_out );
    _exit( 0 );
}
