#!/usr/bin/python3
"""Regenerates /verif/MANIFEST.json from the table below (run by hand after adding a check)."""
import json, os, subprocess

# what two rounds of independently seeded changes added to each space (DESIGN.md 9.3); appended to the level text
EXTENDED = {
    'C01': 'selects over NUMBER/BINARY/BOOLEAN/LOGICAL members with the full literal alphabet inside typed values; an explicitly redeclared attribute (SELF\\sup.x : T); a second file read through the same session object; renamed aggregate types (TYPE l2 = l), a named LIST of references, REAL(n); enumerations whose items are prefixes of one another; integers of 12-20 characters inside aggregates',
    'C02': 'every transitively reduced inheritance graph on 4 entities (thorough 5; quick adds multiple inheritance through multiple inheritance on 5); every aggregate kind x UNIQUE x OPTIONAL '
           'as named type, in-line and nested, read from the descriptors; explicit redeclarations with the derived flag of every instance attribute; names with consecutive underscores; renamed aggregate types with their element type; the width/FIXED of a defined type\'s description; entities with single-valued inverse attributes only and the inverted attribute as resolved by the dictionary; multi-schema files are generated AND compiled (interface families, interfaced items of every kind); shapes in schemas of their own (named two-dimensional aggregates, named aggregates of selects and enumerations, a select of two aggregates of one kind)',
    'C03': 'a literal of the wrong kind inside every typed select value; string literals containing ; ) , as wrong-kind values; garbage after $; undeclared enumeration items that abbreviate or extend a declared one, inside selects and aggregates; references whose id wraps to an existing one in 32/64 bits; dangling references (entity and select) in a file appended to a session that holds the id; the library\'s names of states (.UNSET., .UNKNOWN., .TRUE., .FALSE.) as items',
    'C04': 'an undefined name at every bare reference in every expression; an attribute clash with an ancestor 1-3 levels up / a second supertype / a diamond; three-schema USE/REFERENCE '
           'chains with renames and cycles under every assignment of schema names; select cycles with entity members; which attribute names an entity may mention (5 entities x 5 owners x 6 kinds of mention); one item along two interface paths / two items under one alias; one schema per parametrised diagnostic of the front end; whole-schema USE/REFERENCE; one name declared twice by declarations of different kinds (25 ordered pairs); attribute access and indexing through ALIAS variables; circular subtype graphs of 1-3 entities with another entity hanging off them (72 texts); every digraph on three selects / three entities naming each other under every order of declaration (invalid exactly when cyclic)',
    'C05': 'every comment body up to length 3 (5) cut off by the end of file and closed, at four places; a repeated instance name in exchange and working-session files under all state pairs; a crash or hang is located from the number of answers received, exploration stops after 4 reports per job; degenerate values in every parameter of the three header entities',
    'C06': 'texts of 50 kB - 1 MB in one WHERE/DERIVE/FUNCTION/RULE; the three-schema interface family; unexplained signals are located with gdb; every built-in function/procedure with 0-3 arguments; 19 CASE label forms; an index applied to every kind of type; identifiers ending in \'_\'; the diagnostic catalogue, visibility and interface-path schemas; the multi-schema interfaced-item family; two consecutive and nested ALIAS statements; ALIAS variables used with .attr and [i]; circular subtype graphs with an entity hanging off them; every reference digraph on three selects / three entities; string literals with adjacent apostrophes; hung cases are re-run together',
    'C07': 'all formal parameter lists of 1-3 parameters x {VAR, value} x 3 types; real literals for 6 mantissas x exponents -40..40; every ordered pair of relational operators in both groupings; algorithms without parameters; REAL/STRING/BINARY widths and FIXED in every declaration kind; intervals compared beyond the rewriting the printer applies; interfaced aliases; integer literals beyond 32 bits',
    'C08': 'a subtype of two separately constrained hierarchies; three-branch two-level trees; a set that lacks a supertype of a member is judged even when disconnected; several multiply-inheriting entities with different sets of root hierarchies',
    'C09': 'every comment body up to length 3 over * / c blank between the token and its delimiter; the ISO 8859 escape at the beginning, in the middle and at the end of a string; every ordered pair of 14 boundary integers as elements of a LIST / ARRAY, read and written back; references that wrap to an existing id; every ordered pair of literals read into ONE attribute object compared with the second read alone',
    'C10': 'dependencies and forward table re-queried after every load history; a comment at every token boundary of simple and complex instances; keyword followed by newline/tab; reference chains of 63-300 instances loaded from either end; (thorough) every kind assignment NODE/HOLDER/complex on 3 instances, all functional graphs on 4; a report of the undefined-behaviour sanitizer alone is re-judged on the plain build; zero-padded instance names; instances not in ascending order of their names; an own comment per instance (a comment shown with an instance is the eager reader\'s comment for it)',
    'C11': '12 INVERSE shapes (inverse two levels up, through a second supertype, multiple inheritance on referrer and target side, single+aggregate referrer); histories that load referrers first; an entity that is its own referrer (self references, all digraphs on 1-3 nodes); two inverse attributes of one name inherited from two supertypes; the look-up by descriptor; inverted attributes of defined and renamed aggregate types; an inverse FOR an attribute that the named entity inherits',
    'C12': 'exppp without -o (output named after the schema, repeated in one directory); aggregate bounds that are expressions; string literals full of printf conversions in every place a literal can stand; integer literals around 2^31, 2^32, 2^63, 2^64; multi-pass multi-schema inputs (repeated in one directory)',
    'C13': 'look-up names that are proper prefixes / extensions of entity names; a watchdog per transition (a hang is a violation)',
    'C14': '8 id patterns, a different one per file (49 pairs); aggregates of SELECTs and typed select values holding aggregates of references; the files named identically in different directories, relatively, and one file appended to itself; references through a redeclared attribute; id patterns with a gap before the last instance; comments around the references inside aggregates and selects',
    'C15': 'the unset marker in 8 lexical dresses; the other attribute of a two-attribute entity at every literal alternative; two unset attributes in one instance; the required STRING attributes of the HEADER entities; every spelling of the reference tool\'s options (-is, -ts, -i -s ...); every case also read by the STEPfile constructor',
    'C16': 'every history also with the loads going into the saving session itself; populations with a comment on every instance; optional header entities; string values containing ; ) \' and instance-like text in deleted instances; an operation that fails (missing file) between building and saving the session; a prior session with more header entities loaded first; histories in which a deleted instance is still referred to (first, middle, last element of an aggregate, with and without an attribute behind it; stability over two save/load cycles); a working-session file appended to a loaded session (4 x 4 id patterns x states)',
    'C17': 'names of every length 60-100 (thorough 1-140); order-dependent shapes (select with a renamed enumeration, pure extension schemas) under every assignment of names; renamed select names under every assignment; an attribute name declared in two supertypes and redeclared with a group qualifier',
    'C18': 'inverse/derived attributes in (transitive, second) supertypes; defined-type chains under every permutation of names; all inheritance graphs on 4 entities; keyword-named select members; '
           'the generator\'s base-class order rule stated exactly; order-dependent shapes and extension schemas (shared with C17); entities with 4 and 5 supertypes of different depths in several orders; every Python keyword as entity, type and enumeration-item name; renamed selects',
    'C19': 'a nested aggregate whose base type is a generalisation of the declared one; the same type NAME resolved in two scopes, in both orders, each in a process of its own',
    'C20': 'a fault in each of three external schema files under every lookup order; bare references to functions with parameters; a wording-to-class reference table for -w/-i; one schema per parametrised diagnostic of the message table (the diagnostic catalogue: 33 triggers); an interfaced item that is missing and renamed; one schema name declared in two files; duplicate declarations of different kinds; a multiply-inheriting entity under -w downcast (no spurious warning); all ordered pairs of two -i switches; circular definitions through nested aggregates; identifiers of 64-256 characters in diagnostics',
}

PENDING = 'check not built yet (work in progress; see DESIGN.md section 3 for the plan)'

CHECKS = {
    'C01': dict(
        text='Bounded exhaustive exploration on the real STEPfile: for every entity of two packed schema families (all attribute kinds, OPTIONAL variants, '
             'all ordered pairs of 12 core kinds; inheritance shapes) the default population and ALL single deviations (every literal alternative at every '
             'attribute, 14 white-space/comment fillers in every token gap, forward references, id patterns, external mapping, header alternatives) are '
             'read, written, re-read and re-written; input and output are compared value by value through an independent Part 21 parser. '
             'A coverage statement over the stated families and one deviation (thorough: deeper alphabets), not a proof for all schemas.',
        note='Trusted: the reference parser vlib/p21ref.py (written from doc/iso-10303-21--2002.bnf), the schema model vlib/smodel.py, g++ and the shared-library build. '
             'Comments are not required to survive. Known defects are listed in known_findings.json.',
        technique='deviation-bounded exhaustive input enumeration on the real reader/writer + reference-model comparison',
        ref='3/C01'),
    'C02': dict(
        text='Exhaustive program-family enumeration with a reference model: the packed attribute-kind family (every simple, defined, enumeration, select and aggregate '
             'kind, OPTIONAL variants), the inheritance family (chains, diamond, two roots, derived and redeclared attributes, ABSTRACT, ONEOF/AND/ANDOR) and an '
             'inverse/naming family (C++ and Part 21 keywords) are generated with exp2cxx, compiled, and EVERY descriptor of the registered dictionary (entities, '
             'supertypes, subtypes, abstractness, attributes with kind/optionality/type, inverse attributes, types with underlying type, enumeration items, select members, '
             'aggregate kind/bounds/UNIQUE/OPTIONAL) is compared with the dictionary computed from the abstract model; a fresh instance of every entity must expose the Part 21 '
             'attribute order; a generated C++ test stores and reads back values through every INTEGER/REAL/NUMBER/STRING/BOOLEAN/LOGICAL/entity accessor; each schema is '
             'also compiled with reversed declaration order and in upper case and must register the same dictionary.',
        note='Trusted: smodel (abstract model) and g++. Subtypes/select members compared as sets; the OPTIONAL flag of an aggregate is read from the description text (no getter exists).',
        technique='exhaustive program-family enumeration through the real generator+compiler + reference-model comparison of every dictionary entry',
        ref='3/C02'),
    'C03': dict(
        text='Fault enumeration on the real reader: for every entity of the packed families K and I the conforming default population with exactly ONE '
             'violation of each listed class (parameter removed/added at every position, every other literal kind at every attribute and aggregate '
             'element, unknown/abstract keyword, undeclared enumeration item, * not derived, value for derived, $ for a required aggregate, dangling and '
             'wrong-typed references, select value outside the list, duplicate id, missing ; ) or closing quote). Oracle: severity worse than USERMSG, '
             'p21read exits non-zero, and every lexically intact other instance keeps its values.',
        note='Trusted: p21ref/smodel; an integer literal for a REAL/NUMBER attribute is treated as a leniency and not generated; instances lexically '
             'swallowed by an unterminated instance/string are exempt from confinement. Known defects are in known_findings.json.',
        technique='exhaustive single-fault enumeration over structured inputs on the real reader + confinement oracle',
        ref='3/C03'),
    'C04': dict(
        text='Exhaustive single-fault enumeration over a grammar-directed family: 20 valid schemas (kitchen sink with every statement/expression kind, multi-schema '
             'USE/REFERENCE with renames, 16 feature schemas, packed kind and inheritance families) + the shipped schemas, and ALL single semantic faults of the '
             'listed classes at every declaration position (undefined type/supertype/subtype/schema/function/attribute, duplicate declarations, subtype and '
             'select cycles of length 1-3, subtype not listing its supertype, re-declared inherited attribute, bad INVERSE) plus one token deleted / duplicated at '
             'every token position; each run through check-express, exppp, exp2cxx and exp2python in a fresh directory with a fixed address-space layout. '
             'Oracle: valid => exit 0 and no ERROR in all four; invalid => ERROR + non-zero exit in all four and no success text; exit != 0 <=> ERROR printed; '
             'all four agree on every input.',
        note='Trusted: the family is valid by construction (checked against the property text, not against the tools); a syntax mutant is required to be rejected '
             'only for tokens whose loss/duplication cannot leave a valid schema, the others are judged for agreement and exit-vs-ERROR only; mutants of a base '
             'schema on which a tool already fails are not judged for that tool.',
        technique='exhaustive single-fault mutant enumeration x tool configurations on the real tools + cross-tool agreement oracle',
        ref='3/C04'),
    'C05': dict(
        text='Bounded exhaustive enumeration on ASan+UBSan builds of the real reader/writer: (a) ALL strings of length <= 4 (thorough 5) over the 19-character '
             'Part 21 punctuation alphabet, each before "," and ")", read into 14 (thorough 30) attribute kinds (4.5 M reads in the quick tier), and all strings '
             'of length <= 2 (3) as instance bodies; (b) every single grammar-aware mutation of the conforming default population of each kind: token '
             'delete/duplicate/swap at every token, every token stretched to 63..BUFSIZ+1 and 100000 characters, parentheses nested to 2/64/1000/100000, '
             'truncation at every byte offset of data and header, oversized and illegal complex instances, working-session variants; plus a doubling '
             'rule (12.5k..100k) for time proportionality. Oracle: no sanitizer report, no signal, no hang.',
        note='Trusted: gcc 12 ASan/UBSan; leaks are not judged; the time clause is checked only by the coarse doubling rule (all three ratios > 3 and > 2 s).',
        technique='exhaustive short-input enumeration + exhaustive single-mutation enumeration on sanitizer builds of the real code',
        ref='3/C05'),
    'C06': dict(
        text='Bounded exhaustive enumeration on ASan+UBSan builds of check-express, exppp (also -l 10 / -l 99999), exp2cxx and exp2python: the generated valid '
             'family and ALL shipped schemas; every single-fault mutant of C04; every byte of 3 (thorough 6) small schemas replaced by each of 12 bytes (NUL, 0x80, '
             '0xFF, quotes, brackets ...), deleted, duplicated, and truncation at every offset; 25 pathological lexical shapes at boundary sizes (255..100000 '
             'characters, nesting 2..100, parentheses to 10000, 99..1000 errors, CRLF, no final newline, NUL, BOM); doubling rule for bounded time. Oracle: no '
             'sanitizer report, no signal, exit 0 or a small positive status with a diagnostic.',
        note='Trusted: gcc 12 ASan/UBSan; leaks not judged; a timeout is re-run alone with 10x the limit before it is called a hang.',
        technique='exhaustive single-mutation and boundary-shape enumeration on sanitizer builds of the real tools',
        ref='3/C06'),
    'C07': dict(
        text='Exhaustive input x configuration enumeration on the real printer: every ordered pair of the 7 arithmetic and of the 3 logical operators in the forms "a o b o c", '
             '"(a o b) o c", "a o (b o c)", relational/logical/arithmetic mixes and unary operators; every literal kind (exponent reals, quotes in strings, long strings, encoded '
             'strings, binary, logical, ?, PI, CONST_E), aggregate initialisers with repetition; one schema per WHERE-rule shape (unlabelled, labelled, intervals, IN, QUERY, LIKE, '
             'index, TYPEOF, group reference, nested query) and per statement kind (17); UNIQUE, RULE and supertype-expression shapes; the generated feature family and shipped schemas; '
             'configurations: every line length 10..160, 200, 1000, 99999 on 5 schemas and 12 lengths on the others (thorough: full sweep on all), -t, -c. For each the output must be '
             'accepted by check-express, have the same expref normal form as the source per declaration, and printing it again must give the same token stream.',
        note='Trusted: vlib/expref.py (tokenizer + precedence-based removal of redundant parentheses incl. associative same-operator groups, case folding outside strings, numeric '
             'literals by kind and value, re-joined split strings, declaration/LOCAL/interface order ignored, identifier lists expanded). Comments are not compared. Within one '
             'declaration only the first difference is reported, which is why the family has one schema per construct.',
        technique='exhaustive operator-pair / construct enumeration x exhaustive line-length sweep on the real printer + normal-form equivalence and fixed-point oracles',
        ref='3/C07'),
    'C08': dict(
        text='Exhaustive program x input enumeration against a legality oracle: 160 (thorough ~250) inheritance graphs of 3-6 entities (stars, chains, two-level trees, '
             'diamonds, two roots, abstract towers) with every ONEOF/AND/ANDOR constraint tree of depth <= 2 over the direct subtypes, every subset of subtypes left '
             'unmentioned and +-ABSTRACT, packed 60 per schema library; for each graph ALL 2^n-1 subsets of the entity names in every part order (n<=3; sorted+reversed beyond) '
             'are offered to the real STEPcomplex constructor on the sanitizer build, and every subset of size >= 2 is also read from a file between two plain instances. '
             'Oracle (cxref, written from the property text): accepted <=> legal for connected sets, same verdict for every order, refusal confined and reported, no crash.',
        note='Trusted: vlib/cxref.py. Disconnected sets and one-part "complex" instances are explored for memory safety only.',
        technique='exhaustive enumeration of small programs x all input subsets on the real code + reference-model (legality) oracle',
        ref='3/C08'),
    'C09': dict(
        text='Classical exhaustive enumeration at the attribute seam: for each simple kind ALL strings up to length 4-5 (thorough 6-7) over the kind\'s '
             'alphabet plus boundary numerals, each in 6 delimiter contexts, are read by the real STEPattribute::STEPread (1.6 M reads in the quick tier) '
             'and judged by a grammar recogniser + value function written from the BNF, with a liberal reading for the documented leniencies; the '
             'stream position after every read must be the delimiter. Writer: integers within 2 of every power of two/ten, reals m*10^e for e in '
             '-300..300 x 9 mantissas, read->write->read of boundary tokens.',
        note='Trusted: p21ref recognisers. Weaker readings: a properly quoted string/binary with a bad escape / first digit may be kept verbatim; '
             'underflowing reals and in-band null sentinels are not judged; #+1 is read as #1.',
        technique='exhaustive enumeration of all short strings over an alphabet on the real scanner vs grammar recogniser',
        ref='3/C09'),
    'C10': dict(
        text='Exhaustive input x history enumeration against the eager reader: ALL digraphs on 1-3 instances with two optional reference attributes each (self loops, cycles: 820 files), '
             'references in aggregates, selects and complex parts, forward references, chains/cycles/diamonds on 4 instances, sparse and large ids, strings and comments containing '
             '# ( ) ; = /*, spacing inside "#1 = KW ("; for every file the index, the forward and reverse tables and the dependency set of every instance are compared with an '
             'independent parse, and a breadth-first search over the set of loaded instances (every loadInstance order, with repetition) compares the STEPwrite text of every loaded '
             'instance with the eagerly read one; the lazy loader runs on the sanitizer build.',
        note='Trusted: p21ref (which ids an instance mentions), the eager STEPfile as the serialisation reference. A file the eager reader rejects is judged by C01.',
        technique='exhaustive enumeration of small reference graphs x BFS over load histories on the real loader + differential and reference-model oracles',
        ref='3/C10'),
    'C11': dict(
        text='Exhaustive program x input enumeration: 7 INVERSE shapes (SET inverse over a single attribute, single-valued inverse, BAG inverse over an aggregate attribute, two inverses onto '
             'the same entity, onto different entities, inherited inverse, referrer subtypes and look-alike non-referrers); ALL populations with 1-2 targets and 0-3 referrers where every '
             'reference attribute is target 1, target 2 or unset and aggregates hold every sub-multiset of size <= 2; every target loaded in both orders on the sanitizer build; the inverse '
             'attributes after loadInstance are compared with the referrers computed from the population (none missing, none extra, none twice).',
        note='Trusted: the population generator. A single-valued inverse with several referrers may hold any one of them; which member of the inverse union is valid is taken from the loader\'s own rule.',
        technique='exhaustive enumeration of small populations x load orders on the real loader + reference-model oracle',
        ref='3/C11'),
    'C12': dict(
        text='Exhaustive configuration enumeration around a reference configuration: for every schema of the generated family and selected (thorough: all) shipped '
             'schemas and each of exp2cxx, exp2python, exppp, schema_scanner, every one-axis deviation over {ASLR off/on, heap shift 0/16/4096/1 MiB via an '
             'LD_PRELOAD shim (exactly reproducible with ASLR off), cwd plain/deep/with space, input path absolute/relative/symlink, environment +64 KiB, LC_ALL '
             'C/C.utf8/POSIX, run order first/after another schema/repeated in the same directory} plus the full ASLR x shift grid (thorough: products and ASLR-on '
             'repetitions); the output trees are compared byte for byte with the reference run, and the exit status must agree.',
        note='Trusted: sha256. Only the locales C, C.utf8, POSIX exist here (no comma-decimal locale); stack/mmap address dependence is reached only through ASLR on, '
             'which cannot be replayed exactly; the scanner\'s quoted input path is normalised.',
        technique='exhaustive enumeration of environment configurations (one-axis deviations + layout grid) on the real tools + differential oracle',
        ref='3/C12'),
    'C13': dict(
        text='Explicit-state breadth-first search over operation histories on the real InstMgr (in-process C++ explorer, ASan+UBSan build): 36 symbolic '
             'operations (Append new/explicit/duplicate id/same instance/released instance, Delete by node and by instance first/middle/last, ChangeState x 4, '
             'ClearInstances, DeleteInstances, NextFileId) applied in every distinct state to depth 6 (thorough 7-8) for owning, non-owning and small-capacity '
             'managers; a state is the shortest history replayed on a fresh manager, de-duplicated on all public query answers plus the hidden capacity/maxFileId '
             'fields; after every transition every query of the property is compared with a list+dict reference model; the replayed canonical form is asserted '
             'identical.',
        note='Trusted: the reference model inside drivers/instmgr_mc.cc. Duplicate-id Append may be rejected or renumbered; only in-range indices are queried; '
             'the "random long sequences" part of the quantifier is sampling and is not done.',
        technique='explicit-state BFS over operation histories on the real object with state hashing + reference-model comparison',
        ref='3/C13'),
    'C14': dict(
        text='Exhaustive enumeration of append histories on the real STEPfile: every sequence Read(A) Append(B) [Append(C)] over 8 reference patterns '
             '(plain, aggregate, select, complex part, forward ...) x 6 id patterns (identical dense ids, sparse, around 1000/2000, large, reversed); every '
             'reference of an appended file also names a type-correct instance of the earlier file, so a wrong resolution would be silent. The manager '
             'contents and the written file are compared with a dict model (A unchanged, B shifted by one common offset above every earlier id).',
        note='Trusted: p21ref. Ids whose shifted value would exceed INT_MAX are not generated.',
        technique='exhaustive enumeration of short operation histories on the real object + reference-model comparison',
        ref='3/C14'),
    'C15': dict(
        text='Exhaustive configuration x input enumeration on the real reader: strict in {off,on} x every entity of families K and I x every attribute '
             'position (own, inherited, inside each part of an externally mapped instance) replaced by `$` and by the empty parameter; the severity, the '
             'incomplete state, the value written back and the exit status of p21read [-s] are compared with the table stated by the property.',
        note='Trusted: p21ref/smodel; defined types of INTEGER/REAL/NUMBER/STRING are judged like their base type.',
        technique='exhaustive configuration x single-deviation input enumeration on the real reader + table oracle',
        ref='3/C15'),
    'C16': dict(
        text='Explicit-state exploration of session histories on the real STEPfile: all combinations of <= 3 (thorough 4) instance templates (complete, '
             'partially filled, externally mapped, with references) x ALL 4^n assignments of complete/incomplete/new/delete x the history read, set '
             'states, save, load, save, load, save; after every load ids, types, values and MgrNode states are compared with a dict model, every re-save '
             'byte for byte (time stamp masked).',
        note='Trusted: p21ref. A partially filled instance marked "complete" is not judged; "saving again reproduces the file" is read modulo the '
             'instances that were saved as deleted; delete only for unreferenced instances.',
        technique='exhaustive enumeration of state assignments x fixed save/load history on the real object + reference-model comparison',
        ref='3/C16'),
    'C17': dict(
        text='Exhaustive program-family enumeration: the generated family (feature schemas, multi-schema, packed kinds and inheritance), the exhaustive family of '
             'defined-type shapes (every simple type, enumeration, select, every aggregate kind of each, nested aggregates, renamed enumerations/selects/simple types '
             'and alias chains of length 1-3, aggregates and selects of those, unused types; packed AND one schema per shape), naming collisions (enum vs *_var, C++ and '
             'Part 21 keywords, mixed case) and the shipped schemas; for each, schema_scanner (built stand-alone from the working tree as the configure step does) and '
             'exp2cxx run on the same file in separate empty directories and the listed file set must equal the written one; schema names and file counts are compared.',
        note='Trusted: the regular expression that reads the scanner\'s CMakeLists.txt. The two *_unity_*.h helper headers are not required in the lists; a schema '
             'that exp2cxx rejects is judged by C04/C06, not here.',
        technique='exhaustive program-family enumeration on the two real tools + differential (set equality) oracle',
        ref='3/C17'),
    'C18': dict(
        text='Exhaustive program-family enumeration: the packed attribute-kind family, the inheritance family (chains, diamond, two roots, derived/redeclared '
             'attributes, ABSTRACT/ONEOF/AND/ANDOR), a naming family with every Python keyword and common builtins as attribute, entity and type names, the generated '
             'text family and the shipped unitary schemas (thorough: one schema per attribute kind, all shipped); each is run through exp2python and the result is '
             'py_compiled, imported and inspected in a fresh `python3 -I` against the bundled package. Expected classes, base-class order and constructor parameters '
             'come from the abstract schema model (Part 21 attribute order), not from the tool.',
        note='Trusted: smodel (abstract model) and a small declaration reader for the text-only schemas (redeclared attributes not modelled there: bases only). '
             'Enumeration items and select members are compared as sets; keyword escaping by a trailing "_" is accepted.',
        technique='exhaustive program-family enumeration on the real generator + reference-model (abstract schema) comparison of the imported module',
        ref='3/C18'),
    'C19': dict(
        text='Explicit-state breadth-first search over operation histories on the real Python ARRAY/LIST/BAG/SET classes: 1224 constructions '
             '(bounds -1..3 x 0..4/unbounded x UNIQUE x OPTIONAL x 5 base types), every item assignment/add/read/query in every distinct state to depth 6 '
             '(thorough 9), each step compared with a list/multiset/set reference model of EXPRESS semantics; state spaces of most bounded constructions are closed.',
        note='Trusted: the reference model checks/c19_model.py (ISO 10303-11 clause 8.2 as restated by the property; weaker readings listed in the evidence '
             'assumptions), CPython. Known defects are listed in known_findings.json.',
        technique='explicit-state BFS over operation histories on the real objects + reference-model comparison',
        ref='3/C19'),
    'C20': dict(
        text='Exhaustive single-fault enumeration with planted tokens on the real front end (check-express -w all): every semantic fault of the C04 classes at '
             'every declaration position, 7 lexical faults (illegal characters, non-ASCII byte, _identifier, bad encoded-string digit / digit count) in EVERY token '
             'gap of 4 schemas, wrong argument counts; every diagnostic is matched against the message formats of the diagnostics table and each quoted '
             'argument must occur in the input (never empty/foreign), the diagnostic raised for the fault must quote the planted token, every line must carry '
             '"<input file>:<line>:". Switches: for every warning class c the runs {none, -w c, -w all, -w all -i c, -i c} on 8 schemas (one invalid): exit '
             'status and ERROR lines invariant, -w c adds exactly the lines that -i c removes, classes disjoint.',
        note='Trusted: the format table is read from src/express/error.c at run time; a fault that produces no diagnostic at all is not judged here (C04 judges '
             'acceptance); parser messages (SYNTAX) quote grammar symbols and are exempt from the argument check.',
        technique='exhaustive single-fault mutant enumeration x configuration switches on the real tool + argument-extraction oracle',
        ref='3/C20'),
}


def main():
    props = [json.loads(l) for l in open('/verif/properties.jsonl')]
    try:
        commits = subprocess.run(['git', '-C', '/repo', 'log', '--format=%H %s'], stdout=subprocess.PIPE, text=True).stdout.splitlines()
    except Exception:
        commits = []
    hooks = [c.split()[0] for c in commits if ' hook:' in c or ' hooks:' in c]
    m = {
        'version': 1,
        'setup_cmd': '/verif/bin/setup',
        'hooks': {'guard': 'STEPCODE_VERIF',
                  'enable': 'vlib/build.py passes -DSTEPCODE_VERIF in CMAKE_C_FLAGS/CMAKE_CXX_FLAGS of every variant it builds from /repo\'s working tree '
                            '(no source line references the guard: no hooks were needed, all seams are public API, link-time or LD_PRELOAD)',
                  'baseline_off_cmd': 'cmake --build /repo/_build && ctest --test-dir /repo/_build -j8 --timeout 900',
                  'source_commits': hooks, 'add_only': True},
        'engines': [{'name': 'E-input/E-hist explorers', 'path': '/verif/vlib', 'serves_properties': sorted(CHECKS),
                     'kind_free_text': 'hand-written bounded exhaustive explorers (deviation-bounded input enumeration; BFS over operation histories) driving the real code through small C++ drivers'}],
        'checks': [],
        'notes': 'see DESIGN.md; known genuine defects: known_findings.json',
        'not_applicable': [],
    }
    for p in props:
        pid = p['id']
        c = CHECKS.get(pid)
        if not c:
            m['not_applicable'].append({'property_id': pid, 'reason': PENDING})
            continue
        m['checks'].append({
            'property_id': pid,
            'quick_cmd': '/verif/bin/check %s --tier quick' % pid,
            'thorough_cmd': '/verif/bin/check %s --tier thorough' % pid,
            'evidence_file': '/verif/evidence/%s.json' % pid,
            'replay_cmd_template': '/verif/bin/check %s --replay {path}' % pid,
            'engine': 'E-input/E-hist explorers',
            'level_claimed': {'category': 'model_checking', 'text': c['text'] + ((' Extended after five rounds of independently seeded changes (DESIGN.md 9.3) by: ' + EXTENDED[pid] + '.') if pid in EXTENDED else ''),
                              'design_ref': 'DESIGN.md section ' + c['ref'] + ' and 9.3'},
            'level_note': c['note'],
            'technique': c['technique'],
        })
    with open('/verif/MANIFEST.json', 'w') as f:
        json.dump(m, f, indent=1)
    print('checks:', [c['property_id'] for c in m['checks']])


if __name__ == '__main__':
    main()
