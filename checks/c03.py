#!/usr/bin/python3
"""C03 - the reader never reports a schema-violating exchange file as clean, and confines the damage.
Fault enumeration: every conforming default population x exactly one violation of a listed class at
every instance/attribute position; run on the real STEPfile through p21drv (+ p21read for the exit status)."""
import sys, os, json, re
sys.path.insert(0, '/verif')
from vlib import common, build, smodel, p21ref, p21run, drv
sys.path.insert(0, "/verif/checks")
import c01

PID = 'C03'
TAIL = [(20, 'TGT', ['99']), (21, 'TGT2', ["'after'"])]

# literal of each Part 21 literal kind, used as "parameter of the wrong literal kind"
WRONG = {'int': '7', 'real': '1.5', 'str': "'zz'", 'bin': '"1A"', 'enum': '.RED.', 'ref': '#1', 'list': '(7)', 'typed': 'DINT(7)'}
# further spellings of a wrong literal kind: a string that contains the instance terminator / a delimiter (the damage must stay confined)
WRONG_MORE = {'str': ["'z;z'", "'z)z'", "'z,z'", "'#20=TGT(1);'"]}


def own_kind(schema, t):
    """literal kinds that are NOT a violation for type t (incl. documented leniencies we do not judge)"""
    r = schema.resolve(t)
    k = r[0]
    if k == 'simple':
        return {'INTEGER': {'int'}, 'REAL': {'real', 'int'}, 'NUMBER': {'real', 'int'}, 'STRING': {'str'}, 'BINARY': {'bin'},
                'BOOLEAN': {'enum'}, 'LOGICAL': {'enum'}}[r[1]]
    if k == 'enum':
        return {'enum'}
    if k == 'entity':
        return {'ref'}
    if k == 'aggr':
        return {'list'}
    if k == 'select':
        return None      # judged separately
    raise TypeError(k)


class Space3(c01.Space):
    def bad_file(self, bad_inst_text, before=None):
        tail = [smodel.inst_text(*i) for i in TAIL]
        return smodel.file_text(self.s.name, self.support + (before or []) + [bad_inst_text] + tail)

    def cases(self, ename):
        s = self.s
        if s.tmap()[1][ename].abstract or ename in s.noinst:
            return
        pa = s.p21_attrs(ename)
        base = self.base(ename)
        E = ename.upper()
        mk = lambda p: smodel.inst_text(10, E, p)
        good = mk(base)

        def case(cls, detail, text_inst, attr=None, before=None, raw=None):
            c = {'ent': ename, 'cls': cls, 'detail': detail, 'text': raw if raw is not None else self.bad_file(text_inst, before), 'bad': text_inst}
            if attr is not None:
                c['attr'] = attr
            return c

        yield {'ent': ename, 'cls': 'none', 'detail': 'conforming', 'text': self.bad_file(good), 'bad': None}
        # parameter count
        # (an empty value for a trailing OPTIONAL attribute is accepted by design - property C15 - and a
        #  missing required INTEGER/REAL/NUMBER/STRING is substituted in lenient mode: too-few cases are
        #  generated only when the last attribute is required, and are read in strict mode)
        last_required = bool(pa) and not pa[-1][1].optional and not pa[-1][2]
        for k in range(len(base)):
            if last_required:
                yield dict(case('too-few-params', 'remove@%d' % k, mk(base[:k] + base[k + 1:]), k), strict=True)
        for k in range(len(base) + 1):
            yield case('too-many-params', 'add@%d' % k, mk(base[:k] + ['7'] + base[k:]), min(k, len(base) - 1))
        if base and last_required:
            yield dict(case('too-few-params', 'none', '#10=%s();' % E, 0), strict=True)
        for k, (owner, a, redecl) in enumerate(pa):
            tk = a.type.key()
            if redecl:
                # a value where the attribute is derived
                p = list(base)
                p[k] = self.lits.alts(a.type, short=True)[0]
                yield case('value-for-derived', tk, mk(p), k)
                continue
            # wrong literal kind
            ok = own_kind(s, a.type)
            r = s.resolve(a.type)
            if ok is not None:
                for lk, lit in WRONG.items():
                    if lk in ok:
                        continue
                    if lk == 'typed' and r[0] == 'simple':
                        pass
                    p = list(base)
                    p[k] = lit
                    yield case('wrong-literal-kind', '%s<-%s' % (tk, lk), mk(p), k)
                for lk, lits in WRONG_MORE.items():
                    if lk in ok:
                        continue
                    for lit in lits:
                        p = list(base)
                        p[k] = lit
                        yield case('wrong-literal-kind', '%s<-%s:%s' % (tk, lk, re.sub(r'[a-z0-9#=\']', '', lit.replace('TGT', '')) or 'x'), mk(p), k)
            # the unset marker followed by garbage
            p = list(base)
            p[k] = '$abc'
            yield case('garbage-after-unset', tk, mk(p), k)
            # '*' where nothing is derived
            p = list(base)
            p[k] = '*'
            yield case('star-not-derived', tk, mk(p), k)
            # undeclared enumeration item
            if r[0] == 'enum' or (r[0] == 'simple' and r[1] in ('BOOLEAN', 'LOGICAL')):
                p = list(base)
                p[k] = '.PURPLE.'
                yield case('undeclared-enum-item', tk, mk(p), k)
            if r[0] == 'simple' and r[1] == 'BOOLEAN':
                p = list(base)
                p[k] = '.U.'
                yield case('undeclared-enum-item', tk + ':U-for-boolean', mk(p), k)
            if r[0] == 'enum' or (r[0] == 'simple' and r[1] in ('BOOLEAN', 'LOGICAL')):
                # the names the library has for the states and values of these types are not items of the type: .UNSET., .UNKNOWN., .TRUE., .FALSE.
                for lit in ('.UNSET.', '.UNKNOWN.', '.TRUE.', '.FALSE.'):
                    p = list(base)
                    p[k] = lit
                    yield case('undeclared-enum-item', tk + ':library-name-of-a-state', mk(p), k)
            if r[0] == 'enum':
                # an undeclared item that abbreviates or extends a declared one is as undeclared as any other
                it0 = r[1][0].upper()
                for what, lit in (('prefix', '.%s.' % it0[:-1]), ('first-letter', '.%s.' % it0[:1]), ('extended', '.%sX.' % it0), ('prefix-of-last', '.%s.' % r[1][-1].upper()[:2])):
                    if lit.strip('.').lower() in [x.lower() for x in r[1]]:
                        continue            # (that abbreviation happens to be a declared item)
                    p = list(base)
                    p[k] = lit
                    yield case('undeclared-enum-item', tk + ':' + what, mk(p), k)
            if r[0] == 'select':
                # an enumeration member of the select, spelled with its type name
                types, ents_ = s.tmap()
                def enum_members(ms):
                    for m in ms:
                        if m in types:
                            rr = s.resolve(smodel.Named(m))
                            if rr[0] == 'enum':
                                yield m, rr[1]
                            elif rr[0] == 'select':
                                for x in enum_members(rr[1]):
                                    yield x
                for m, items in enum_members(r[1]):
                    for what, lit in (('undeclared', '%s(.PURPLE.)' % m.upper()), ('prefix', '%s(.%s.)' % (m.upper(), items[0].upper()[:-1]))):
                        p = list(base)
                        p[k] = lit
                        yield case('undeclared-enum-item', tk + ':in-select:' + what, mk(p), k)
            if r[0] == 'aggr' and s.resolve(r[1].elem)[0] == 'enum':
                items = s.resolve(r[1].elem)[1]
                egood = '.%s.' % items[0].upper()
                en = (r[1].hi - r[1].lo + 1) if r[1].kind == 'ARRAY' else 2
                for what, lit in (('undeclared', '.PURPLE.'), ('prefix', '.%s.' % items[0].upper()[:-1])):
                    for pos in sorted({0, en - 1}):
                        el = [egood] * en
                        el[pos] = lit
                        p = list(base)
                        p[k] = '(%s)' % ','.join(el)
                        yield case('undeclared-enum-item', tk + ':element:' + what, mk(p), k)
            # missing required aggregate
            if r[0] == 'aggr' and not a.optional:
                p = list(base)
                p[k] = '$'
                yield case('missing-required-aggregate', tk, mk(p), k)
            # references
            if r[0] == 'entity':
                p = list(base)
                p[k] = '#77'
                yield case('dangling-reference', tk, mk(p), k)
                for big in ('#4294967297', '#18446744073709551617'):
                    p = list(base)
                    p[k] = big
                    yield case('dangling-reference', tk + ':wraps-to-an-existing-id', mk(p), k)
                p = list(base)
                p[k] = '#77'
                # the same file appended to a session in which an instance #77 of the right type exists: the reference is as dangling as before
                yield dict(case('dangling-reference', 'appended:' + tk, mk(p), k), append_after=self.file(['#77=%s;' % {'tgt': 'TGT(77)', 'tgt2': "TGT2('t77')", 'tgtsub': 'TGTSUB(77,78)'}.get(r[1], 'TGT(77)')]), mode='read')
                wrong = {'tgt': '#3', 'tgt2': '#1', 'tgtsub': '#1'}.get(r[1])
                if wrong:
                    p = list(base)
                    p[k] = wrong
                    yield case('reference-wrong-type', tk, mk(p), k)
            if r[0] == 'select' and any(m in s.tmap()[1] for m in r[1]):
                # a select with entity members: a dangling reference, alone and appended
                p = list(base)
                p[k] = '#77'
                yield case('dangling-reference', 'select:' + tk, mk(p), k)
                yield dict(case('dangling-reference', 'appended:select:' + tk, mk(p), k), append_after=self.file(["#77=TGT(77);", "#78=TGT2('t78');"]), mode='read')
            if r[0] == 'aggr':
                er = s.resolve(r[1].elem)
                if er[0] == 'entity':
                    d = self.lits.alts(r[1].elem, short=True)[0]
                    n = (r[1].hi - r[1].lo + 1) if r[1].kind == 'ARRAY' else 2
                    p = list(base)
                    p[k] = '(%s)' % ','.join(['#77'] + [d] * (n - 1))
                    yield case('dangling-reference', tk, mk(p), k)
                    for big in ('#4294967297', '#18446744073709551617'):      # 2^32 + 1, 2^64 + 1: equal to the existing #1 in a narrower integer
                        p = list(base)
                        p[k] = '(%s)' % ','.join([d] * (n - 1) + [big])
                        yield case('dangling-reference', tk + ':wraps-to-an-existing-id', mk(p), k)
                    wrong = {'tgt': '#3', 'tgt2': '#1'}.get(er[1])
                    if wrong:
                        p = list(base)
                        p[k] = '(%s)' % ','.join([d] * (n - 1) + [wrong])
                        yield case('reference-wrong-type', tk, mk(p), k)
                eok = own_kind(s, r[1].elem)
                if eok is not None and r[1].kind != 'ARRAY':
                    d = self.lits.alts(r[1].elem, short=True)[0]
                    for lk, lit in WRONG.items():
                        if lk in eok or lk == 'list' and s.resolve(r[1].elem)[0] == 'aggr':
                            continue
                        p = list(base)
                        p[k] = '(%s,%s)' % (d, lit)
                        yield case('wrong-literal-kind', '%s[elem]<-%s' % (tk, lk), mk(p), k)
            # select value outside the select list
            if r[0] == 'select':
                members = set(self._leaf_members(r[1]))
                for cand, lit in (('dreal', 'DREAL(1.5)'), ('dbool', 'DBOOL(.T.)'), ('dint', 'DINT(7)'), ('dstr', "DSTR('zz')"), ('nosuch', 'NOSUCH(7)')):
                    if cand not in members:
                        p = list(base)
                        p[k] = lit
                        yield case('select-outside-list', '%s<-%s' % (tk, cand), mk(p), k)
                for cand, lit in (('tgt', '#1'), ('tgt2', '#3')):
                    if cand not in members and not ({'tgt', 'tgtsub'} & members and cand == 'tgt'):
                        p = list(base)
                        p[k] = lit
                        yield case('select-outside-list', '%s<-#%s' % (tk, cand), mk(p), k)
                # the right type keyword around a literal of the wrong kind:  DINT('zz')
                for lit_in, mname, lk in self._typed_wrong(members):
                    p = list(base)
                    p[k] = lit_in
                    yield case('wrong-literal-kind', '%s:typed[%s]<-%s' % (tk, mname, lk), mk(p), k)
            if r[0] == 'aggr' and s.resolve(r[1].elem)[0] == 'select' and r[1].kind != 'ARRAY':
                d = self.lits.alts(r[1].elem, short=True)[0]
                for lit_in, mname, lk in self._typed_wrong(set(self._leaf_members(s.resolve(r[1].elem)[1]))):
                    p = list(base)
                    p[k] = '(%s,%s)' % (d, lit_in)
                    yield case('wrong-literal-kind', '%s[elem]:typed[%s]<-%s' % (tk, mname, lk), mk(p), k)
        # the same classes inside the parts of an externally mapped instance
        order = s.ancestors_ordered(ename)
        if len(order) > 1:
            ents = s.tmap()[1]
            redecl = set((d.redeclares, d.name) for n in order for d in ents[n].derived if d.redeclares)
            defaults = {n: ['*' if (n, a.name) in redecl else self.lits.alts(a.type, short=True)[0] for a in ents[n].attrs if not a.redeclares] for n in order}
            mkc = lambda vals: '#10=(%s);' % ''.join('%s(%s)' % (n.upper(), ','.join(vals[n])) for n in sorted(vals))
            yield {'ent': ename, 'cls': 'none', 'detail': 'conforming-complex', 'text': self.bad_file(mkc(defaults)), 'bad': None, 'complex': True}
            for n in order:
                for k, a in enumerate([x for x in ents[n].attrs if not x.redeclares]):
                    if (n, a.name) in redecl:
                        continue
                    if not [x for x in ents[n].attrs if not x.redeclares][-1].optional:
                        v = {m: list(x) for m, x in defaults.items()}
                        del v[n][k]
                        yield dict(case('too-few-params', 'complex-part', mkc(v)), complex=True, strict=True)
                    v = {m: list(x) for m, x in defaults.items()}
                    v[n].insert(k, '7')
                    yield dict(case('too-many-params', 'complex-part', mkc(v)), complex=True)
                    ok = own_kind(s, a.type)
                    if ok is not None:
                        for lk, lit in WRONG.items():
                            if lk in ok:
                                continue
                            v = {m: list(x) for m, x in defaults.items()}
                            v[n][k] = lit
                            yield dict(case('wrong-literal-kind', 'complex-part:%s<-%s' % (a.type.key(), lk), mkc(v)), complex=True)
            v = {m: list(x) for m, x in defaults.items()}
            v['nosuch'] = ['7']
            yield dict(case('unknown-entity', 'complex-part', mkc(v)), complex=True)
        # entity keyword
        yield case('unknown-entity', 'NOSUCH', '#10=NOSUCH(%s);' % ','.join(base))
        # duplicate id
        yield case('duplicate-id', 'same-entity-twice', good, before=[good])
        yield case('duplicate-id', 'id-of-earlier-instance', smodel.inst_text(1, E, base))
        # unterminated instance / string / missing paren
        yield case('unterminated-instance', 'missing-semicolon', good[:-1])
        yield case('missing-close-paren', '', good[:-2] + ';')
        toks = p21run.tokenize(good)
        for ti, t in enumerate(toks):
            if t.startswith("'") and len(t) >= 2:
                yield case('unterminated-string', 'tok%d' % ti, ''.join(toks[:ti]) + t[:-1] + ''.join(toks[ti + 1:]))
                break

    def _typed_wrong(self, members):
        """(text, member, literal kind): each defined-type member of a select around a literal that its underlying type does not admit"""
        types, ents = self.s.tmap()
        for m in sorted(members):
            if m in ents or m not in types:
                continue
            ok = own_kind(self.s, smodel.Named(m))
            if ok is None:
                continue
            for lk, lit in WRONG.items():
                if lk in ok or lk == 'typed':
                    continue
                yield '%s(%s)' % (m.upper(), lit), m, lk

    def _leaf_members(self, members):
        out = []
        types, ents = self.s.tmap()
        for m in members:
            if m in ents:
                out.append(m)
                continue
            r = self.s.resolve(smodel.Named(m))
            if r[0] == 'select':
                out += self._leaf_members(r[1])
            else:
                out.append(m)
        return out

    def abstract_cases(self):
        for e in self.s.entities:
            if e.abstract:
                vals = [self.lits.alts(a.type, short=True)[0] for _, a, _ in self.s.p21_attrs(e.name)]
                yield {'ent': e.name, 'cls': 'abstract-entity', 'detail': e.name, 'text': self.bad_file(smodel.inst_text(10, e.name.upper(), vals)), 'bad': 'x'}


def intact_instances(text):
    """ids of instances whose text is lexically intact in a (possibly broken) file: chunks between
    ';' outside strings that parse as one whole instance."""
    data = text.encode('latin1') if isinstance(text, str) else text
    i = data.find(b'DATA;')
    if i < 0:
        return {}
    body = data[i + 5:]
    chunks = []
    cur = bytearray()
    instr = False
    k = 0
    while k < len(body):
        ch = body[k:k + 1]
        if instr:
            cur += ch
            if ch == b"'":
                instr = False
        elif ch == b"'":
            instr = True
            cur += ch
        elif ch == b';':
            chunks.append(bytes(cur) + b';')
            cur = bytearray()
        else:
            cur += ch
        k += 1
    out = {}
    for c in chunks:
        c = c.strip()
        try:
            lx = p21ref.Lexer(c)
            idt = lx.match(p21ref.RE_REF, 'id')
            lx.expect(b'=')
            rec = p21ref.parse_record(lx)
            lx.expect(b';')
            lx.skip()
            if lx.i == len(c):
                out.setdefault(int(idt[1:]), []).append(rec)
        except p21ref.P21Error:
            pass
    return out


def judge(fam, case, res):
    """-> list of (keypart, what)"""
    cls = case['cls']
    ent = case['ent']
    kind = None
    if 'attr' in case:
        pa = fam.p21_attrs(ent)
        if case['attr'] < len(pa):
            kind = pa[case['attr']][1].type.key()
    kind = kind or (ent[2:] if ent.startswith(('e_', 'o_')) else ent)
    out = []
    if 'crash' in res:
        return [('crash/%s/%s' % tuple(res['crash']), 'crash %s in %s on %s %s' % (res['crash'][0], res['crash'][1], cls, case['detail']))]
    if cls == 'none':
        if res['esev'] < 2:
            return [('base-rejected/%s' % kind, 'conforming base population rejected (covered by C01)')]
        return []
    if res['esev'] >= 2:
        out.append(('accepted/%s/%s' % (cls, case['detail'] or kind), 'violation %s (%s) on %s read with severity %d (clean)' % (cls, case['detail'], ent, res['esev'])))
    # confinement
    intact = intact_instances(case['text'])
    dump = {}
    for iid, st, en, txt in res.get('dump', []):
        dump.setdefault(iid, []).append((en, txt))
    if case.get('append_after'):
        # appended: the ids of this file were shifted by one offset; compare its instances with the offset taken out again
        first = set(intact_instances(case['append_after']))
        new = {iid: v for iid, v in dump.items() if iid not in first}
        off = (min(new) - 1) if new else 0
        dump = {iid - off: [(en, re.sub(rb'#(\d+)', lambda m: b'#%d' % (int(m.group(1)) - off if int(m.group(1)) > off else int(m.group(1))), txt if isinstance(txt, bytes) else txt.encode('latin1'))) for en, txt in v]
                for iid, v in new.items()}
    lost = []
    changed = []
    for iid, recs in intact.items():
        if iid == 10 or len(recs) > 1:
            continue
        if cls == 'duplicate-id' and iid == 1 and case['detail'] == 'id-of-earlier-instance':
            continue
        kw, params = recs[0]
        if iid not in dump:
            lost.append(iid)
            continue
        en, txt = dump[iid][0]
        try:
            lx = p21ref.Lexer(txt.strip())
            lx.match(p21ref.RE_REF, 'id')
            lx.expect(b'=')
            rec2 = p21ref.parse_record(lx)
        except p21ref.P21Error:
            changed.append(iid)
            continue
        if rec2[0] != kw or len(rec2[1]) != len(params) or any(p21ref.value_diff(a, b) for a, b in zip(params, rec2[1])):
            changed.append(iid)
    if lost:
        pos = 'before' if min(lost) < 10 else 'after'
        out.append(('not-confined/%s/lost-%s/%s' % (cls, pos, case['detail'] or kind), 'conforming instance(s) %s lost next to a %s violation' % (lost, cls)))
    if changed:
        out.append(('not-confined/%s/changed/%s' % (cls, case['detail'] or kind), 'conforming instance(s) %s changed next to a %s violation' % (changed, cls)))
    return out


def fams():
    return [smodel.family_K('fk', pairs='core'), smodel.family_I('fi')]


def replay(path):
    obj = json.load(open(path))
    case = obj['case']
    fam = {f.name: f for f in fams()}[case['family']]
    lib = build.schema_lib(fam.express(), 'plain')
    c = dict(case)
    c['mode'] = 'read'
    c['want_log'] = True
    r = p21run.run_many(lib, [c], procs=1)[0]
    print('input:\n' + case['text'])
    print('severity:', r.get('esev'), 'dump:', [(i, e) for i, s, e, t in r.get('dump', [])])
    print(r.get('log', '')[-1500:])
    v = judge(fam, case, r)
    print('verdict:', v)
    return 1 if v else 0


def main():
    args = common.parse_args(sys.argv[1:])
    if args.replay:
        sys.exit(replay(args.replay))
    chk = common.Check(PID, args.tier, deadline_s=args.deadline)
    chk.rule = ('fault enumeration: every entity of families K and I, default population + exactly ONE violation of each listed class at every '
                'attribute position (parameter removed/added, each other literal kind, unknown/abstract keyword, undeclared enumeration item, * not '
                'derived, value for derived, $ for required aggregate, dangling / wrong-typed reference, select value outside list, duplicate id, '
                'missing ; ) or closing quote); state = mutated file, transition = one read on the real STEPfile (+ p21read exit status)')
    chk.assumptions = ['integer literal for a REAL/NUMBER attribute is treated as a leniency, not a violation', 'p21ref and smodel are correct',
                       'instances swallowed lexically by an unterminated instance/string are not required to survive']
    for fam in fams():
        lib = build.schema_lib(fam.express(), 'plain')
        sp = Space3(fam, args.tier)
        cases = []
        for e in sp.entities():
            if e.name.startswith('p_') and args.tier == 'quick' and not e.name.startswith(('p_inte_', 'p_stri_', 'p_list_int_', 'p_ref_', 'p_enum_', 'p_seldef_')):
                continue
            for c in sp.cases(e.name):
                c['family'] = fam.name
                c['mode'] = 'read'
                cases.append(c)
        for c in sp.abstract_cases():
            c['family'] = fam.name
            c['mode'] = 'read'
            cases.append(c)
        seen = set()
        uniq = []
        for c in cases:
            dk = (c['text'], c.get('append_after'), bool(c.get('strict')))
            if dk not in seen:
                seen.add(dk)
                uniq.append(c)
        grp = lambda c: '%s/%s' % (c['cls'], (c.get('detail') or '').split(':')[0])
        chk.extra.setdefault('case_groups_lost_to_deduplication', {})[fam.name] = sorted({grp(c) for c in cases} - {grp(c) for c in uniq})
        cases = uniq
        results = p21run.run_many(lib, cases, chunksize=16)
        badbase = set()
        for c, r in zip(cases, results):
            if c['cls'] == 'none' and ('crash' in r or r['esev'] < 2):
                badbase.add((c['ent'], bool(c.get('complex'))))
        chk.extra.setdefault('entities_with_failing_base', {})[fam.name] = sorted('%s%s' % (e, '(complex)' if cx else '') for e, cx in badbase)
        todo_p21read = []
        for c, r in zip(cases, results):
            if (c['ent'], bool(c.get('complex'))) in badbase:
                continue
            chk.count(states=1, transitions=1)
            chk.cls(c['cls'])
            v = judge(fam, c, r)
            if not v:
                chk.outcome('rejected-and-confined' if c['cls'] != 'none' else 'base-accepted')
                if c['cls'] != 'none':
                    chk.sample({'entity': c['ent'], 'class': c['cls'], 'detail': c['detail'], 'bad_instance': c['bad'], 'severity': r.get('esev')}, maxn=8)
                    if c['ent'].startswith('e_') or fam.name == 'fi':
                        todo_p21read.append(c)
            for kp, what in v:
                chk.outcome(kp.split('/')[0])
                chk.violation('%s/%s' % (PID, kp), what, dict(c))
        # the reference tool must exit non-zero on every rejected file
        rcs = common.tmap(lambda c: p21run.p21read(lib, c['text'], strict=bool(c.get('strict')))[0], todo_p21read)
        for c, rc in zip(todo_p21read, rcs):
            chk.count(transitions=1)
            chk.outcome('p21read-exit-%s' % rc)
            if rc == 0:
                chk.violation('%s/p21read-exit-0/%s/%s' % (PID, c['cls'], c['detail']), 'p21read exits 0 on a file with a %s violation' % c['cls'], dict(c))
            elif rc is None or rc < 0 or rc > 2:
                chk.violation('%s/p21read-abnormal/%s/%s' % (PID, rc, c['cls']), 'p21read ends with status %s' % rc, dict(c))
        chk.bounds[fam.name] = {'cases': len(cases), 'violations_per_file': 1}
    if chk.outcomes.get('rejected-and-confined', 0) == 0 or len(chk.classes) < 10:
        chk.harness_error('vacuous: %s' % dict(chk.outcomes))
    sys.exit(chk.finish())


if __name__ == '__main__':
    sys.path.insert(0, '/verif/checks')
    main()
