"""Reference normal form of EXPRESS text for comparing a schema with its pretty-printed form
"token for token up to redundant parentheses, letter case outside string literals, the spelling of numeric
literals, the splitting of long string literals and the order of declarations in a scope"."""
import re
from . import gfam

PREC = {'**': 6, '*': 5, '/': 5, 'div': 5, 'mod': 5, 'and': 5, '||': 5, '+': 4, '-': 4, 'or': 4, 'xor': 4,
        '=': 3, '<>': 3, '<': 3, '>': 3, '<=': 3, '>=': 3, ':=:': 3, ':<>:': 3, 'in': 3, 'like': 3, 'andor': 1}
UNARY = {'+', '-', 'not'}
# a '(' right after one of these is part of the syntax, never a grouping parenthesis
SYNTAX_PAREN_AFTER = {'of', 'for', 'oneof', 'select', 'return', 'query', 'string', 'binary', 'real', 'from', 'rule', 'subtype', 'supertype', 'abs', 'sizeof'}


def norm_tokens(text):
    """[(kind, value)] with kinds: id (lower-cased), int, real (by value), str (merged), op, bin"""
    out = []
    for kind, t, off in gfam.code_tokens(text):
        if kind == 'id':
            out.append(('id', t.lower()))
        elif kind == 'int':
            out.append(('int', int(t)))
        elif kind == 'real':
            out.append(('real', float(t)))
        elif kind == 'str':
            out.append(('str', t[1:-1]))
        elif kind == 'estr':
            out.append(('estr', t[1:-1].upper()))
        elif kind == 'bin':
            out.append(('bin', t[1:]))
        else:
            out.append(('op', t))
    return merge_strings(out)


def merge_strings(out):
    """merge split string literals  'a' + 'b'"""
    merged = []
    i = 0
    while i < len(out):
        if out[i][0] == 'str':
            s = out[i][1]
            j = i
            while j + 2 < len(out) and out[j + 1] == ('op', '+') and out[j + 2][0] == 'str':
                s += out[j + 2][1]
                j += 2
            merged.append(('str', s))
            i = j + 1
        else:
            merged.append(out[i])
            i += 1
    return merged


def _val(t):
    return t[1] if t[0] in ('id', 'op') else None


def is_binop(toks, i):
    """is toks[i] a binary operator occurrence?"""
    v = _val(toks[i])
    if v not in PREC:
        return False
    if v in ('+', '-'):
        if i == 0:
            return False
        p = toks[i - 1]
        pv = _val(p)
        if p[0] == 'op' and pv not in (')', ']', '}', '?'):
            return False
        if p[0] == 'id' and (pv in PREC or pv in UNARY or pv in ('return', 'then', 'else', 'of', 'to', 'by', 'while', 'until', 'if', 'case')):
            return False
    if v in ('<', '>') and False:
        return True
    return True


def matching(toks, i):
    """index of the bracket matching the opening bracket at i"""
    pairs = {'(': ')', '[': ']', '{': '}'}
    o = toks[i][1]
    c = pairs[o]
    d = 0
    for j in range(i, len(toks)):
        if toks[j] == ('op', o):
            d += 1
        elif toks[j] == ('op', c):
            d -= 1
            if d == 0:
                return j
    return None


def top_ops(toks):
    """binary operators at bracket depth 0 of a token list, and whether it starts with a unary operator"""
    ops = []
    d = 0
    for i, t in enumerate(toks):
        if t[0] == 'op' and t[1] in '([{':
            d += 1
        elif t[0] == 'op' and t[1] in ')]}':
            d -= 1
        elif d == 0 and is_binop(toks, i):
            ops.append(_val(t))
    lead_unary = bool(toks) and _val(toks[0]) in UNARY and not (len(toks) > 1 and False)
    return ops, lead_unary


def has_top_comma_or_stmt(toks):
    d = 0
    for t in toks:
        if t[0] == 'op' and t[1] in '([{':
            d += 1
        elif t[0] == 'op' and t[1] in ')]}':
            d -= 1
        elif d == 0 and t[0] == 'op' and t[1] in (',', ';', ':=', ':', '|', '<*'):
            return True
    return False


def minimal_parens(toks):
    """remove every grouping parenthesis pair that operator precedence makes redundant (fixed point)"""
    toks = list(toks)
    changed = True
    while changed:
        changed = False
        i = 0
        while i < len(toks):
            if toks[i] == ('op', '('):
                j = matching(toks, i)
                if j is None:
                    i += 1
                    continue
                prev = toks[i - 1] if i > 0 else None
                pv = _val(prev) if prev else None
                grouping = True
                if prev is not None:
                    if prev[0] == 'id' and pv not in PREC and pv not in UNARY and pv not in ('if', 'then', 'else', 'while', 'until', 'case', 'to', 'by', 'where', 'derive'):
                        grouping = False       # function call, type length, ONEOF(...), SUBTYPE OF (...), RETURN(...)
                    if prev == ('id', 'of') and not (i >= 2 and toks[i - 2] in (('id', 'subtype'), ('id', 'supertype'))):
                        grouping = True        # CASE x OF ( label ) : ...  - the parenthesis groups the first case label
                    if prev[0] == 'op' and pv in (')', ']'):
                        grouping = False
                inner = toks[i + 1:j]
                if grouping and inner and not has_top_comma_or_stmt(inner):
                    ops, lead_unary = top_ops(inner)
                    nxt = toks[j + 1] if j + 1 < len(toks) else None
                    left_is_op = prev is not None and (pv in PREC and is_binop(toks, i - 1))
                    left_is_unary = prev is not None and pv in UNARY and not left_is_op
                    right_is_op = nxt is not None and _val(nxt) in PREC and is_binop(toks, j + 1)
                    if not ops and not lead_unary:
                        redundant = True
                    elif lead_unary and not ops:
                        # a unary operator binds tighter than every binary operator (ISO 10303-11 table 10)
                        redundant = not left_is_unary
                    else:
                        p = min(PREC[o] for o in ops)
                        if True:
                            same_assoc = len(set(ops)) == 1 and ops[0] in ('+', '*', 'and', 'or', 'xor', '||', 'andor')
                            lok = (not left_is_op and not left_is_unary) or (left_is_op and PREC[pv] < p) or (left_is_op and same_assoc and pv == ops[0])
                            # operators of one precedence level are evaluated left to right (ISO 10303-11 clause 12): a group that is the
                            # LEFT operand of an operator of its own level is redundant
                            rok = (not right_is_op) or PREC[_val(nxt)] < p or (PREC[_val(nxt)] == p and not left_is_op)
                            if right_is_op and PREC[_val(nxt)] == p and left_is_op and PREC[pv] < p:
                                rok = True
                            redundant = lok and rok
                    if redundant:
                        del toks[j]
                        del toks[i]
                        changed = True
                        continue
            i += 1
    return toks


BLOCKS = {'schema': 'end_schema', 'entity': 'end_entity', 'type': 'end_type', 'function': 'end_function', 'procedure': 'end_procedure', 'rule': 'end_rule',
          'constant': 'end_constant', 'local': 'end_local'}


def split_schemas(toks):
    """{schema name: {(kind, name): token list}} ; constants are split per item, USE/REFERENCE kept as ('interface', text)"""
    out = {}
    i = 0
    n = len(toks)
    while i < n:
        if toks[i] == ('id', 'schema'):
            name = toks[i + 1][1]
            j = i
            while j < n and toks[j] != ('id', 'end_schema'):
                j += 1
            out[name] = split_decls(toks[i + 3:j])
            i = j
        i += 1
    return out


def split_decls(toks):
    decls = {}
    i = 0
    n = len(toks)
    k = 0
    while i < n:
        t = toks[i]
        v = _val(t)
        if t[0] == 'id' and v in ('entity', 'type', 'function', 'procedure', 'rule'):
            end = BLOCKS[v]
            depth = 0
            j = i
            while j < n:
                if toks[j] == ('id', v):
                    depth += 1
                elif toks[j] == ('id', end):
                    depth -= 1
                    if depth == 0:
                        break
                j += 1
            body = toks[i:j + 1]
            decls[(v, toks[i + 1][1])] = body
            i = j + 2        # skip END_x ;
            continue
        if t == ('id', 'constant'):
            j = i + 1
            item = []
            while j < n and toks[j] != ('id', 'end_constant'):
                item.append(toks[j])
                if toks[j] == ('op', ';'):
                    decls[('constant', item[0][1])] = item
                    item = []
                j += 1
            i = j + 2
            continue
        if t[0] == 'id' and v in ('use', 'reference'):
            j = i
            while j < n and toks[j] != ('op', ';'):
                j += 1
            decls[('interface', k)] = toks[i:j + 1]
            k += 1
            i = j + 1
            continue
        i += 1
    return decls


def expand_id_lists(toks):
    """'; a , b , c : T ;'  ->  '; a : T ; b : T ; c : T ;'  (attribute, local and parameter lists)"""
    out = []
    i = 0
    n = len(toks)
    while i < n:
        # an identifier list starts after ';' or '(' or a section keyword and ends at ':'
        if toks[i][0] == 'id' and i + 1 < n and toks[i + 1] == ('op', ',') and (not out or out[-1] in (('op', ';'), ('op', '(')) or (out[-1][0] == 'id' and out[-1][1] in ('local', 'derive', 'inverse', 'var'))):
            j = i
            names = []
            ok = True
            while j < n:
                if toks[j][0] == 'id' and j + 1 < n and toks[j + 1] == ('op', ','):
                    names.append(toks[j])
                    j += 2
                elif toks[j][0] == 'id' and j + 1 < n and toks[j + 1] == ('op', ':'):
                    names.append(toks[j])
                    j += 1
                    break
                else:
                    ok = False
                    break
            if ok and len(names) > 1:
                # the type runs to the next ';' or ')' at depth 0
                k = j + 1
                d = 0
                while k < n:
                    if toks[k][0] == 'op' and toks[k][1] in '([{':
                        d += 1
                    elif toks[k][0] == 'op' and toks[k][1] in ')]}':
                        if d == 0:
                            break
                        d -= 1
                    elif toks[k] == ('op', ';') and d == 0:
                        break
                    k += 1
                typ = toks[j + 1:k]
                sep = toks[k] if k < n and toks[k] == ('op', ';') else ('op', ';')
                is_var = bool(out) and out[-1] == ('id', 'var')
                for m, nm in enumerate(names):
                    if is_var and m > 0:
                        out.append(('id', 'var'))          # VAR a, b : T  declares both as VAR
                    out += [nm, ('op', ':')] + typ
                    if m < len(names) - 1:
                        out.append(sep)
                i = k
                continue
        out.append(toks[i])
        i += 1
    return out


def canon_decl(toks):
    """canonical token list of one declaration: minimal parentheses; identifier lists expanded; LOCAL items sorted"""
    toks = minimal_parens(toks)
    while True:                      # ( 'a' + 'b' ) + 'c' : the literal can be joined only once the parentheses are gone
        t2 = minimal_parens(merge_strings(toks))
        if t2 == toks:
            break
        toks = t2
    toks = sort_nested(expand_id_lists(toks))
    # sort the items of a LOCAL block (the printer alphabetises scopes)
    out = []
    i = 0
    while i < len(toks):
        if toks[i] == ('id', 'local'):
            j = i + 1
            items = []
            item = []
            while j < len(toks) and toks[j] != ('id', 'end_local'):
                item.append(toks[j])
                if toks[j] == ('op', ';'):
                    items.append(item)
                    item = []
                j += 1
            out.append(toks[i])
            for it in sorted(items, key=lambda x: repr(x)):
                out += it
            i = j
            continue
        out.append(toks[i])
        i += 1
    return out


def sort_nested(toks):
    """FUNCTION/PROCEDURE declarations nested in an algorithm head: a run of them is sorted by name (the printer alphabetises scopes)"""
    if not toks or toks[0] not in (('id', 'function'), ('id', 'procedure'), ('id', 'rule')):
        return toks
    out = [toks[0]]
    i = 1
    n = len(toks)
    while i < n:
        if toks[i] in (('id', 'function'), ('id', 'procedure')):
            blocks = []
            while i < n and toks[i] in (('id', 'function'), ('id', 'procedure')):
                v = toks[i][1]
                depth = 0
                j = i
                while j < n:
                    if toks[j] == ('id', v):
                        depth += 1
                    elif toks[j] == ('id', BLOCKS[v]):
                        depth -= 1
                        if depth == 0:
                            break
                    j += 1
                end = min(j + 2, n)            # END_x ;
                blocks.append(sort_nested(toks[i:end]))
                i = end
            for b in sorted(blocks, key=lambda b: (b[0][1], repr(b[1]))):
                out += b
            continue
        out.append(toks[i])
        i += 1
    return out


def render(toks, limit=160):
    s = ' '.join(str(t[1]) if t[0] != 'str' else "'%s'" % t[1] for t in toks)
    return s if len(s) <= limit else s[:limit] + '...'


def first_diff(a, b):
    for k, (x, y) in enumerate(zip(a, b)):
        if x != y:
            return k
    return min(len(a), len(b)) if len(a) != len(b) else None


def desugar_intervals(toks):
    """{ lo op1 x op2 hi }  ->  ( ( lo op1 x ) AND ( x op2 hi ) ), innermost first; returns (tokens, number of intervals rewritten).
    The front end builds exactly this conjunction when it reads an interval, so a printed schema can be compared beyond that (listed) deviation."""
    toks = list(toks)
    n = 0
    while True:
        close = next((i for i, t in enumerate(toks) if t == ('op', '}')), None)
        if close is None:
            return toks, n
        opn = max((i for i in range(close) if toks[i] == ('op', '{')), default=None)
        if opn is None:
            return toks, n
        inner = toks[opn + 1:close]
        depth = 0
        cuts = []
        for i, t in enumerate(inner):
            if t[0] == 'op' and t[1] in ('(', '['):
                depth += 1
            elif t[0] == 'op' and t[1] in (')', ']'):
                depth -= 1
            elif depth == 0 and t[0] == 'op' and t[1] in ('<', '<='):
                cuts.append(i)
        if len(cuts) != 2:
            toks[opn] = ('op', '(')          # not of the expected form: leave the content, drop the braces so that the loop ends
            toks[close] = ('op', ')')
            continue
        lo, mid, hi = inner[:cuts[0]], inner[cuts[0] + 1:cuts[1]], inner[cuts[1] + 1:]
        new = [('op', '('), ('op', '(')] + lo + [inner[cuts[0]]] + mid + [('op', ')'), ('id', 'and'), ('op', '(')] + mid + [inner[cuts[1]]] + hi + [('op', ')'), ('op', ')')]
        toks[opn:close + 1] = new
        n += 1
