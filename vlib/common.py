"""Shared plumbing for all checks: paths, subprocess helpers, deadline, evidence,
known findings, violation/replay files.  Standard library only."""
import os, sys, json, time, hashlib, subprocess, signal, fnmatch, collections, re

ROOT = '/verif'
# The registered commands use the defaults.  The three variables exist for one purpose: trying a seeded change in a scratch worktree
# (bin/trymutant --repo) without disturbing /repo, the build cache and the evidence of the real tree.
REPO = os.environ.get('VERIF_REPO', '/repo')
BUILD = os.environ.get('VERIF_BUILD', os.path.join(ROOT, 'build'))
EVID = os.environ.get('VERIF_EVID', os.path.join(ROOT, 'evidence'))
REPLAYS = os.path.join(os.environ['VERIF_EVID'], 'replays') if os.environ.get('VERIF_EVID') else os.path.join(ROOT, 'replays')
FINDINGS = os.path.join(ROOT, 'known_findings.json')
NCPU = os.cpu_count() or 4

BASE_ENV = {
    'PATH': '/usr/local/sbin:/usr/local/bin:/usr/sbin:/usr/bin:/sbin:/bin',
    'LC_ALL': 'C', 'TZ': 'UTC', 'HOME': '/root',
}
ASAN_ENV = {
    'ASAN_OPTIONS': 'detect_leaks=0:allow_user_segv_handler=0:handle_abort=1:abort_on_error=0:exitcode=99:detect_stack_use_after_return=0:symbolize=1:fast_unwind_on_malloc=1:malloc_context_size=8',
    'UBSAN_OPTIONS': 'print_stacktrace=1:halt_on_error=1:exitcode=98',
}


def sha(*parts):
    h = hashlib.sha256()
    for p in parts:
        if isinstance(p, str):
            p = p.encode('utf-8', 'surrogateescape')
        h.update(p)
        h.update(b'\0')
    return h.hexdigest()


def run(cmd, input=None, timeout=60, env=None, cwd=None, merge=False):
    """Run cmd; returns (rc, stdout_bytes, stderr_bytes).  rc<0 = -signal; rc=None = timeout."""
    e = dict(BASE_ENV)
    if env:
        e.update(env)
    try:
        p = subprocess.run(cmd, input=input, stdout=subprocess.PIPE,
                           stderr=subprocess.STDOUT if merge else subprocess.PIPE,
                           timeout=timeout, env=e, cwd=cwd)
        return p.returncode, p.stdout, (b'' if merge else p.stderr)
    except subprocess.TimeoutExpired as ex:
        return None, ex.stdout or b'', ex.stderr or b''


class Deadline:
    def __init__(self, seconds):
        self.t0 = time.time()
        self.limit = seconds
        self.hit = False

    def left(self):
        return self.limit - (time.time() - self.t0)

    def expired(self):
        if self.left() <= 0:
            self.hit = True
        return self.hit


def load_findings():
    try:
        with open(FINDINGS) as f:
            return json.load(f)['findings']
    except FileNotFoundError:
        return []


_RP = re.escape(REPO.encode())
SAN_RE = re.compile(rb'(?:ERROR: AddressSanitizer: ([\w-]+)|(' + _RP + rb'/[^\s:]+):(\d+):\d+: runtime error: ([^\n]{0,80})|AddressSanitizer:DEADLYSIGNAL)')
FRAME_RE = re.compile(rb'#\d+ 0x[0-9a-f]+ in ([^\n]+?) (' + _RP + rb'/[^\s:]+):\d+')


def _fn(sig):
    """function name without its parameter list / template noise"""
    s = sig.decode('latin1')
    s = re.sub(r'\[abi:\w+\]', '', s)
    depth = 0
    out = []
    for ch in s:
        if ch in '(<':
            depth += 1
        elif ch in ')>':
            depth -= 1
        elif depth == 0:
            out.append(ch)
    name = re.sub(r'\s+(const|volatile|&|&&)\s*$', '', ''.join(out).strip())
    return name.split(' ')[-1]


def sanitizer_key(text):
    """(class, site) of the first sanitizer report in text, or None.  site = innermost function in /repo."""
    m = SAN_RE.search(text)
    if not m:
        return None
    if m.group(1):
        cls = m.group(1).decode()
    elif m.group(4):
        cls = 'UB:' + re.sub(r"0x[0-9a-f]+|\d+", 'N', m.group(4).decode('latin1')).strip()
        cls = re.sub(r"'[^']*'", "T", cls)[:60]
    else:
        cls = 'SEGV'
    if cls in ('stack-overflow', 'SEGV'):
        # a runaway recursion dies wherever the guard page is hit: name the function that recurses instead
        import collections as _c
        cnt = _c.Counter(_fn(f.group(1)) + '@' + os.path.basename(f.group(2).decode('latin1')) for f in FRAME_RE.finditer(text))
        if cnt:
            fn0, n0 = cnt.most_common(1)[0]
            if n0 >= 10:
                top = sorted(k for k, v in cnt.items() if v >= n0 - 1)
                pick = next((k for k in top if 'load' in k.lower() or 'recurs' in k.lower()), top[0])
                return 'stack-overflow', 'recursion:' + pick
    fm = FRAME_RE.search(text, m.end())
    fn = 'unknown'
    if fm:
        fn = _fn(fm.group(1)) + '@' + os.path.basename(fm.group(2).decode('latin1'))
    elif m.group(2):
        fn = os.path.basename(m.group(2).decode('latin1')) + ':' + m.group(3).decode()
    return cls, fn


class Check:
    """One run of one property's check.  Collects counts, samples and violations, applies the
    known-findings file, writes evidence, prints the protocol lines and gives the exit code."""

    def __init__(self, pid, tier='quick', level='model_checking', deadline_s=None):
        self.pid = pid
        self.tier = tier
        self.level = level
        self.seed = int(os.environ.get('VERIF_SEED', '0') or 0)
        self.t0 = time.time()
        if deadline_s is None:
            deadline_s = 15 * 60 if tier == 'quick' else 90 * 60
        self.deadline = Deadline(deadline_s)
        self.states = 0
        self.transitions = 0
        self.outcomes = collections.Counter()
        self.classes = collections.Counter()      # per deviation class: cases exercised
        self.samples = []
        self.viol = collections.OrderedDict()     # key -> dict(count, what, replay)
        self.caps = []
        self.bounds = {}
        self.assumptions = []
        self.rule = ''
        self.extra = {}
        self.harness_errors = []
        self.findings = [f for f in load_findings() if f.get('property') == pid]

    # ---- counting
    def count(self, states=0, transitions=0):
        self.states += states
        self.transitions += transitions

    def outcome(self, o, n=1):
        self.outcomes[str(o)] += n

    def cls(self, c, n=1):
        self.classes[c] += n

    def sample(self, s, maxn=12):
        if len(self.samples) < maxn:
            self.samples.append(s)

    def cap(self, what):
        self.caps.append(what)

    def harness_error(self, msg):
        self.harness_errors.append(msg)
        sys.stderr.write('HARNESS-ERROR %s: %s\n' % (self.pid, msg))

    # ---- violations
    def violation(self, key, what, replay):
        """key: the finding key (specific construct / call site).  replay: JSON-able dict
        holding the complete case; written to disk only for the first case of each key."""
        v = self.viol.get(key)
        if v is None:
            self.viol[key] = {'count': 1, 'what': what, 'replay': replay}
        else:
            v['count'] += 1
            # keep the smallest replay (first counterexample is usually simplest already)

    def _status(self, key):
        # only 'known' entries count: a 'fixed' entry is a record and suppresses nothing
        for f in self.findings:
            k = f.get('key', '')
            if f.get('status') == 'known' and (k == key or (f.get('glob') and fnmatch.fnmatchcase(key, k))):
                return f
        return None

    # ---- finish
    def finish(self, exhaustive=True):
        wall = time.time() - self.t0
        new = []
        known = []
        for key, v in self.viol.items():
            f = self._status(key)
            if f is not None and f.get('status') == 'known':
                known.append((key, v, f))
            else:
                new.append((key, v))
        if self.deadline.hit:
            exhaustive = False
            self.caps.append('global deadline of %d s reached' % self.deadline.limit)
        if self.caps:
            exhaustive = False
        for key, v, f in known:
            print('KNOWN-FINDING: property=%s %s [key=%s, %d case(s) this run]' % (self.pid, f.get('what', v['what']), key, v['count']))
        paths = []
        for key, v in new:
            d = os.path.join(REPLAYS, self.pid)
            os.makedirs(d, exist_ok=True)
            p = os.path.join(d, re.sub(r'[^A-Za-z0-9_.-]+', '_', key)[:80] + '-' + sha(key)[:8] + '.json')
            with open(p, 'w') as fh:
                json.dump({'property': self.pid, 'key': key, 'what': v['what'], 'count': v['count'],
                           'case': v['replay'],
                           'replay_cmd': '/verif/bin/check %s --replay %s' % (self.pid, p)}, fh, indent=1, default=repr)
            paths.append(p)
            print('VIOLATION property=%s replay=%s' % (self.pid, p))
            print('  key=%s cases=%d: %s' % (key, v['count'], v['what']))
        cov = {
            'states': self.states, 'transitions': self.transitions,
            'traces_validated_against_impl': self.transitions,
            'evaluations': self.transitions,
            'distinct_nontrivial': self.states,
            'rule': self.rule,
            'distinct_outcomes': len(self.outcomes),
            'outcomes': dict(self.outcomes.most_common(40)),
            'deviation_classes': dict(self.classes),
            'samples': self.samples or ['(none)'],
            'bound_completed': self.bounds,
            'caps_hit': self.caps,
            'exhaustive': bool(exhaustive),
            'known_findings_seen': sorted(k for k, _, _ in known),
            'new_violation_keys': sorted(k for k, _ in new),
        }
        cov.update(self.extra)
        ev = {'property_id': self.pid, 'tier': self.tier, 'seed': self.seed, 'level': self.level,
              'coverage': cov, 'assumptions': self.assumptions, 'wall_s': round(wall, 2),
              'violations': len(new)}
        os.makedirs(EVID, exist_ok=True)
        with open(os.path.join(EVID, self.pid + '.json'), 'w') as fh:
            json.dump(ev, fh, indent=1, default=repr)
        print('%s tier=%s states=%d transitions=%d outcomes=%d known=%d new=%d exhaustive=%s wall=%.1fs' % (
            self.pid, self.tier, self.states, self.transitions, len(self.outcomes), len(known), len(new), exhaustive, wall))
        if self.harness_errors:
            print('HARNESS-ERRORS: %d (first: %s)' % (len(self.harness_errors), self.harness_errors[0]))
            return 2
        return 1 if new else 0


def parse_args(argv):
    import argparse
    ap = argparse.ArgumentParser()
    ap.add_argument('--tier', default=os.environ.get('VERIF_TIER', 'quick'), choices=['quick', 'thorough'])
    ap.add_argument('--replay', default=None)
    ap.add_argument('--deadline', type=int, default=None)
    return ap.parse_args(argv)


def pmap(fn, items, procs=None, chunksize=1):
    """Ordered parallel map over a process pool (fork)."""
    import multiprocessing as mp
    items = list(items)
    if not items:
        return []
    procs = min(procs or NCPU, len(items))
    if procs <= 1:
        return [fn(x) for x in items]
    with mp.get_context('fork').Pool(procs) as pool:
        return pool.map(fn, items, chunksize)


def pimap(fn, items, procs=None, chunksize=1):
    """Ordered lazy parallel map (generator); caller may stop early."""
    import multiprocessing as mp
    procs = procs or NCPU
    pool = mp.get_context('fork').Pool(procs)
    try:
        for r in pool.imap(fn, items, chunksize):
            yield r
    finally:
        pool.terminate()
        pool.join()


def tmap(fn, items, threads=None):
    """Ordered map on a thread pool (for subprocess-bound work; fn may be a closure)."""
    from concurrent.futures import ThreadPoolExecutor
    items = list(items)
    if not items:
        return []
    with ThreadPoolExecutor(max_workers=threads or NCPU) as ex:
        return list(ex.map(fn, items))
