"""Legality of a set of entity names under SUBTYPE/SUPERTYPE declarations, written directly from the
text of property C08 (closure under supertypes; each member's ONEOF/AND/ANDOR expression over the direct
subtypes present, unmentioned subtypes ANDOR-ed in; an ABSTRACT member needs a subtype present)."""
import itertools


class Graph:
    """ents: {name: {'supers': [..], 'abstract': bool, 'expr': tree or None}}
    tree: name | ('ONEOF', [trees]) | ('AND', [trees]) | ('ANDOR', [trees])"""

    def __init__(self, ents):
        self.ents = ents
        self.subs = {n: [m for m in ents if n in ents[m]['supers']] for n in ents}

    def express(self, prefix='', attr=False):
        out = []
        for n, e in self.ents.items():
            h = 'ENTITY %s%s' % (prefix, n)
            if e.get('abstract') and e.get('expr') is not None:
                h += ' ABSTRACT SUPERTYPE OF (%s)' % tree_text(e['expr'], prefix)
            elif e.get('abstract'):
                h += ' ABSTRACT SUPERTYPE'
            elif e.get('expr') is not None:
                h += ' SUPERTYPE OF (%s)' % tree_text(e['expr'], prefix)
            if e['supers']:
                h += ' SUBTYPE OF (%s)' % ', '.join(prefix + s for s in e['supers'])
            out.append(h + '; %sv_%s : OPTIONAL INTEGER; END_ENTITY;' % ('' if not attr else '', n) if attr else h + '; END_ENTITY;')
        return '\n'.join(out)


def tree_text(t, prefix=''):
    if isinstance(t, str):
        return prefix + t
    op, kids = t
    if op == 'ONEOF':
        return 'ONEOF (%s)' % ', '.join(tree_text(k, prefix) for k in kids)
    return '(' + (' %s ' % op).join(tree_text(k, prefix) for k in kids) + ')'


def leaves(t):
    if isinstance(t, str):
        return [t]
    return [x for k in t[1] for x in leaves(k)]


def gen(t):
    """set of frozensets of leaves that the expression allows to be present together"""
    if isinstance(t, str):
        return {frozenset([t])}
    op, kids = t
    gs = [gen(k) for k in kids]
    if op == 'ONEOF':
        return set().union(*gs)
    if op == 'AND':
        out = set()
        for combo in itertools.product(*gs):
            out.add(frozenset().union(*combo))
        return out
    if op == 'ANDOR':
        out = set()
        for r in range(1, len(gs) + 1):
            for idx in itertools.combinations(range(len(gs)), r):
                for combo in itertools.product(*[gs[i] for i in idx]):
                    out.add(frozenset().union(*combo))
        return out
    raise ValueError(op)


def allowed_present(g, n):
    e = g.ents[n]
    subs = g.subs[n]
    mentioned = leaves(e['expr']) if e.get('expr') is not None else []
    rest = [s for s in subs if s not in mentioned]
    parts = ([e['expr']] if e.get('expr') is not None else []) + rest
    if not parts:
        return {frozenset()}
    total = ('ANDOR', parts) if len(parts) > 1 else parts[0]
    al = gen(total)
    if not e.get('abstract'):
        al = al | {frozenset()}
    return al


def legal(g, S):
    S = set(S)
    for n in S:
        if n not in g.ents:
            return False
        for sup in g.ents[n]['supers']:
            if sup not in S:
                return False
    for n in S:
        present = frozenset(s for s in g.subs[n] if s in S)
        if present not in allowed_present(g, n):
            return False
    return True


def connected(g, S):
    S = list(S)
    if not S:
        return False
    seen = {S[0]}
    todo = [S[0]]
    while todo:
        x = todo.pop()
        for y in S:
            if y not in seen and (y in g.ents[x]['supers'] or x in g.ents[y]['supers']):
                seen.add(y)
                todo.append(y)
    return len(seen) == len(S)
