#!/usr/bin/python3
"""MANIFEST.setup_cmd: build everything the quick tier needs from /repo's working tree, offline."""
import sys, os, time
sys.path.insert(0, '/verif')
from vlib import build, common, smodel


def main():
    t0 = time.time()
    for v in ('plain', 'san'):
        build.ensure(v)
        print('built variant', v, '%.0fs' % (time.time() - t0), flush=True)
    build.ensure_scanner()
    print('built scanner', '%.0fs' % (time.time() - t0), flush=True)
    drivers = [('p21drv', 'plain', False), ('p21drv', 'san', False)]
    for extra in (('attrdrv', 'plain', False), ('attrdrv', 'san', False), ('dictdump', 'plain', False), ('lazydrv', 'plain', True),
                  ('cxdrv', 'san', False), ('instmgr_mc', 'san', False)):
        if os.path.exists('/verif/drivers/%s.cc' % extra[0]):
            drivers.append(extra)
    for name, v, lazy in drivers:
        build.driver(name, v, lazy=lazy)
    print('built drivers', '%.0fs' % (time.time() - t0), flush=True)
    # schema libraries used by the quick tier (cached by content; rebuilt when generator/headers change)
    for fam, variants in ((smodel.family_K('fk', pairs='core'), ('plain',)), (smodel.family_I('fi'), ('plain', 'san'))):
        for v in variants:
            try:
                build.schema_lib(fam.express(), v)
            except build.GenError as e:
                print('WARNING: family %s does not build (%s) - the checks will report it' % (fam.name, e))
    print('built schema libraries', '%.0fs' % (time.time() - t0), flush=True)


if __name__ == '__main__':
    main()
