#!/usr/bin/python3
"""C04 - all EXPRESS tools give the same, correct verdict on a schema.
E-input: valid schemas of the grammar-directed family (+ shipped) and ALL single-fault mutants of them
(semantic fault classes at every declaration position; one token deleted/duplicated at every token
position) x the four tools, each run in a fresh empty directory."""
import sys, os, json, re
sys.path.insert(0, '/verif')
from vlib import common, build, gfam, exptools

PID = 'C04'
TOOLS = exptools.TOOLS


def run_all(case):
    """case: {'name','text'|'path', ...} -> {tool: (rc, errors, warnings, success_text, nfiles, sanitizer, tail)}"""
    res = {}
    for t in TOOLS:
        if case.get('path'):
            r = exptools.run_tool(t, None, args=[] if t != 'exppp' else [], timeout=300, fname=None) if False else None
        text = case.get('text')
        if text is None:
            with open(case['path'], 'rb') as f:
                text = f.read()
        r = exptools.run_tool(t, text, timeout=case.get('timeout', 120))
        gen = sorted(k for k in r.files if not k.endswith('.txt'))
        res[t] = {'rc': r.rc, 'errors': r.errors, 'warnings': r.warnings, 'success': r.success_text, 'files': len(gen),
                  'tail': r.out[-400:].decode('latin1'), 'firsterr': (exptools.ERR_RE.search(r.out) and r.out[exptools.ERR_RE.search(r.out).start():][:120].split(b'\n')[0].decode('latin1'))}
    return res


def judge(case, res, skip=()):
    """-> [(keypart, what)]; skip: tools whose run on the unmutated base schema already failed"""
    out = []
    kind = case['kind']
    cls = case.get('cls', 'valid')
    for t in TOOLS:
        if t in skip:
            continue
        r = res[t]
        rc = r['rc']
        ctx = '%s/%s' % (t, cls if kind != 'valid' else 'valid:' + case['name'].split('/')[0])
        if rc is None:
            out.append(('hang/%s' % ctx, '%s did not finish' % t))
            continue
        if rc < 0 or rc > 125:
            out.append(('abnormal-exit/%s/%s' % (ctx, rc), '%s ended with status %s: %s' % (t, rc, r['tail'][-200:])))
            continue
        # exit status is non-zero exactly when an ERROR was printed
        if (rc != 0) != (r['errors'] > 0):
            out.append(('exit-vs-error/%s/rc=%d,errors=%s' % (ctx, min(rc, 2), 'yes' if r['errors'] else 'no'), '%s: exit %d with %d ERROR line(s): %s' % (t, rc, r['errors'], r['tail'][-200:])))
        if kind == 'valid':
            if rc != 0 or r['errors']:
                out.append(('valid-rejected/%s' % ctx, '%s rejects a valid schema (%s): %s' % (t, case['name'], r['firsterr'] or r['tail'][-200:])))
        elif kind == 'invalid':
            if rc == 0 and not r['errors']:
                out.append(('invalid-accepted/%s/%s' % (ctx, case.get('detail', '')), '%s accepts a schema with a %s fault (%s)' % (t, cls, case.get('detail'))))
            elif r['success']:
                out.append(('success-text-on-rejected/%s' % ctx, '%s prints a success message although it rejects: %s' % (t, r['tail'][-200:])))
    # all tools agree (any case, including the not-judged syntax mutants)
    verdicts = {t: (res[t]['rc'] == 0) for t in TOOLS if t not in skip and res[t]['rc'] is not None and 0 <= res[t]['rc'] <= 125}
    if len(set(verdicts.values())) > 1:
        acc = sorted(t for t, v in verdicts.items() if v)
        rej = sorted(t for t, v in verdicts.items() if not v)
        out.append(('tools-disagree/%s/accept=%s' % (cls, '+'.join(acc)), 'accepted by %s, rejected by %s' % (acc, rej)))
    return out


def job(case):
    return run_all(case)


def replay(path):
    obj = json.load(open(path))
    case = obj['case']
    res = run_all(case)
    for t in TOOLS:
        print(t, res[t]['rc'], 'errors=%d' % res[t]['errors'], res[t]['tail'][-300:].replace('\n', ' | '))
    v = judge(case, res)
    print('verdict:', v)
    return 1 if v else 0


def main():
    args = common.parse_args(sys.argv[1:])
    if args.replay:
        sys.exit(replay(args.replay))
    chk = common.Check(PID, args.tier, deadline_s=args.deadline)
    build.ensure('plain')
    chk.rule = ('valid: grammar-directed family (kitchen sink, multi-schema USE/REFERENCE, 16 feature schemas, packed kind/inheritance families) + shipped schemas; '
                'invalid: every single semantic fault of the listed classes at every declaration position (up to 4 per class) and every single token '
                'deletion/duplication; each x {check-express, exppp, exp2cxx, exp2python} in a fresh directory; state = schema text, transition = one tool run')
    chk.assumptions = ['a token deletion/duplication is REQUIRED to be rejected only for tokens whose loss cannot leave a valid schema (block keywords, brackets, :=, OF, FOR; '
                       'duplicated identifiers/literals/brackets); all other syntax mutants are judged for tool agreement and exit-vs-ERROR only',
                       'shipped schemas are taken as valid']
    cases = []
    valid = gfam.valid_schemas(args.tier)
    for name, text in valid:
        cases.append({'kind': 'valid', 'name': name, 'text': text})
    # three schemas in one file with USE / REFERENCE chains, renames and cycles, under every assignment of the schema names
    for name, text, ok in gfam.interface_family(args.tier):
        if ok:
            cases.append({'kind': 'valid', 'name': name, 'text': text})
        else:
            cases.append({'kind': 'invalid', 'name': name, 'cls': 'undefined-interfaced-item', 'detail': 'name-before-rename', 'planted': 'widget', 'text': text})
    # which attribute names an entity may mention (declared in it or a supertype - not in a subtype, a sibling or an unrelated entity)
    for name, text, ok, planted in gfam.visibility_family():
        if ok is None:
            cases.append({'kind': 'unjudged', 'name': name, 'cls': 'implicit-downcast', 'detail': name, 'text': text})
        elif ok:
            cases.append({'kind': 'valid', 'name': name, 'text': text})
        else:
            cases.append({'kind': 'invalid', 'name': 'visibility', 'cls': 'attribute-not-visible:' + name.rsplit('_', 1)[1], 'detail': name, 'planted': planted, 'text': text})
    # one item along two interface paths (legal) / two items under one name (duplicate)
    for name, text, ok in gfam.interface_paths():
        if ok:
            cases.append({'kind': 'valid', 'name': name, 'text': text})
        else:
            cases.append({'kind': 'invalid', 'name': 'interface-paths', 'cls': 'interfaced-name-clash', 'detail': name, 'planted': 'p', 'text': text})
    # one name declared twice by declarations of different kinds
    for name, text, planted in gfam.duplicate_kinds():
        cases.append({'kind': 'invalid', 'name': 'duplicate-kinds', 'cls': 'duplicate-declaration:other-kind', 'detail': name, 'planted': planted, 'text': text})
    # every digraph on three selects / three entities naming each other, under every order of declaration: invalid exactly when it has a cycle
    for kind in ('select', 'subtype'):
        for name, text, ok in gfam.reference_digraphs(kind, args.tier):
            if ok:
                cases.append({'kind': 'valid', 'name': 'digraph/' + name, 'text': text, 'timeout': 15})
            else:
                # (these texts take milliseconds; a tool that does not come back on one of them has hung)
                cases.append({'kind': 'invalid', 'name': 'reference-digraphs', 'cls': 'circular-%s-graph' % kind, 'detail': name, 'planted': 'zq_a', 'text': text, 'timeout': 15})
    # a circular subtype graph with another entity hanging off it
    for name, text, planted in gfam.cyclic_subtypes():
        cases.append({'kind': 'invalid', 'name': 'cyclic-subtypes', 'cls': 'circular-subtype-graph', 'detail': name, 'planted': planted, 'text': text})
    # one schema per parametrised diagnostic of the front end (group reference of a non-entity, circular type definition, missing INCLUDE ...)
    for c in gfam.diagnostic_catalogue():
        if c['cls'] == 'always-true-branch':
            cases.append({'kind': 'valid', 'name': 'catalogue/' + c['cls'], 'text': c['text']})
        elif 'extra_files' not in c:
            cases.append({'kind': 'invalid', 'name': 'catalogue', 'cls': 'catalogue:' + c['cls'], 'detail': c['detail'], 'planted': c['planted'], 'text': c['text']})
    ship = gfam.shipped()
    if args.tier == 'quick':
        ship = [s for s in ship if os.path.getsize(s[1]) < 300000]
    for name, path in ship:
        cases.append({'kind': 'valid', 'name': 'shipped/' + name, 'path': path, 'timeout': 300})
    for name, text in valid:
        for cls, detail, planted, mt in gfam.semantic_mutants(name, text):
            if mt:
                cases.append({'kind': 'invalid', 'name': name, 'cls': cls, 'detail': detail, 'planted': planted, 'text': mt})
        # an undefined name at every bare reference inside an expression
        for cls, detail, planted, mt in gfam.reference_mutants(name, text, limit=None if (args.tier == 'thorough' or name in ('ks', 'multi') or name.startswith('m_')) else 12):
            cases.append({'kind': 'invalid', 'name': name, 'cls': cls, 'detail': detail, 'planted': planted, 'text': mt})
        if name in ('ks', 'multi') or name.startswith('m_'):
            step = 1 if (args.tier == 'thorough' or name != 'ks') else 3
            for cls, detail, must, mt in gfam.syntax_mutants(name, text, step):
                cases.append({'kind': 'invalid' if must else 'unjudged', 'name': name, 'cls': cls, 'detail': detail, 'text': mt})
    seen = set()
    uniq = []
    for c in cases:
        k = c.get('text') or c.get('path')
        if k in seen:
            continue
        seen.add(k)
        uniq.append(c)
    cases = uniq
    results = common.pmap(job, cases, chunksize=4)
    basefail = {}
    for c, res in zip(cases, results):
        if c['kind'] == 'valid':
            basefail[c['name']] = [t for t in TOOLS if res[t]['rc'] != 0]
    chk.extra['tools_failing_on_valid_base'] = {k: v for k, v in basefail.items() if v}
    for c, res in zip(cases, results):
        chk.count(states=1, transitions=len(TOOLS))
        chk.cls(c.get('cls', c['kind']))
        v = judge(c, res, skip=basefail.get(c['name'], ()) if c['kind'] != 'valid' else ())
        if not v:
            chk.outcome('%s:%s' % (c['kind'], 'accepted' if res['check-express']['rc'] == 0 else 'rejected'))
            if c['kind'] == 'invalid':
                chk.sample({'schema': c['name'], 'fault': c['cls'], 'detail': c.get('detail'), 'first_error': res['check-express']['firsterr']}, maxn=8)
        for kp, what in v:
            chk.outcome(kp.split('/')[0])
            cc = dict(c)
            if 'path' in cc and 'text' not in cc:
                cc['text'] = None
            chk.violation('%s/%s' % (PID, kp), what, cc)
    chk.bounds = {'valid_schemas': sum(1 for c in cases if c['kind'] == 'valid'), 'mutants': sum(1 for c in cases if c['kind'] != 'valid'), 'faults_per_schema': 1}
    if chk.outcomes.get('invalid:rejected', 0) == 0 or chk.outcomes.get('valid:accepted', 0) == 0:
        chk.harness_error('vacuous: %s' % dict(chk.outcomes))
    sys.exit(chk.finish())


if __name__ == '__main__':
    main()
