#!/usr/bin/python3
"""C10 - the lazy loader sees the same file as the eager reader.
E-input x E-hist: conforming populations with exhaustively enumerated reference structure (all digraphs on
<= 3 nodes with out-degree <= 2, references in aggregates / selects / complex parts, index-scanner lexical
deviations) x BFS over the set of loaded instances (every order of loadInstance calls), lazyInstMgr versus
the eager STEPfile of the same library."""
import sys, os, json, re, itertools
sys.path.insert(0, '/verif')
from vlib import common, build, smodel, p21ref, drv
import multiprocessing as mp

PID = 'C10'
SCHEMA = """SCHEMA lz;
TYPE sel = SELECT (node, dstr); END_TYPE;
TYPE dstr = STRING; END_TYPE;
ENTITY node; a : OPTIONAL node; b : OPTIONAL node; n : INTEGER; END_ENTITY;
ENTITY holder; refs : LIST [0:?] OF node; s : OPTIONAL sel; t : STRING; END_ENTITY;
ENTITY sup; x : OPTIONAL node; END_ENTITY;
ENTITY sub1 SUBTYPE OF (sup); y : OPTIONAL holder; END_ENTITY;
ENTITY sub2 SUBTYPE OF (sup); z : INTEGER; END_ENTITY;
END_SCHEMA;
"""


def ref(i):
    return '$' if i is None else '#%d' % i


def digraph_files():
    """all digraphs on 1..3 nodes where every node has <= 2 successors (attributes a, b), incl. self loops and cycles"""
    for n in (1, 2, 3):
        ids = list(range(1, n + 1))
        choices = [None] + ids
        for edges in itertools.product(itertools.product(choices, repeat=2), repeat=n):
            insts = ['#%d=NODE(%s,%s,%d);' % (i, ref(edges[i - 1][0]), ref(edges[i - 1][1]), i * 11) for i in ids]
            yield {'cls': 'digraph-%d' % n, 'insts': insts}


def mixed_files(n=3):
    """thorough: every assignment of a kind (NODE with two references / HOLDER with a list of <= 2 references / complex SUB2+SUP with one) to
    n instances and every choice of their references among the NODE instances (the declared target type), plus two four-node families"""
    ids = list(range(1, n + 1))
    for kinds in itertools.product('NHX', repeat=n):
        if set(kinds) == {'N'}:
            continue                                # digraph_files has these
        tg = [None] + [i for i in ids if kinds[i - 1] == 'N']
        per = []
        for i in ids:
            k = kinds[i - 1]
            if k == 'N':
                per.append(['#%d=NODE(%s,%s,%d);' % (i, ref(a), ref(b), i) for a in tg for b in tg])
            elif k == 'H':
                lists = [()] + [(a,) for a in tg[1:]] + [(a, b) for a in tg[1:] for b in tg[1:]]
                per.append(["#%d=HOLDER((%s),$,'h');" % (i, ','.join(ref(x) for x in l)) for l in lists])
            else:
                per.append(['#%d=(SUB2(5)SUP(%s));' % (i, ref(a)) for a in tg])
        for insts in itertools.product(*per):
            yield {'cls': 'mixed-kinds-%d' % n, 'insts': list(insts)}
    ids = [1, 2, 3, 4]
    ch = [None] + ids
    for e in itertools.product(ch, repeat=4):       # four nodes, one reference each: every functional graph
        yield {'cls': 'digraph-4-outdeg1', 'insts': ['#%d=NODE(%s,$,%d);' % (i, ref(e[i - 1]), i) for i in ids]}
    for e in itertools.product(ch, repeat=4):       # ... and a second reference to the cyclic successor
        for m in itertools.product((0, 1), repeat=4):
            if not any(m):
                continue
            yield {'cls': 'digraph-4-ring', 'insts': ['#%d=NODE(%s,%s,%d);' % (i, ref(e[i - 1]), ref(i % 4 + 1 if m[i - 1] else None), i) for i in ids]}


def shaped_files():
    N = lambda i, a=None, b=None: '#%d=NODE(%s,%s,%d);' % (i, ref(a), ref(b), i)
    yield {'cls': 'aggregate-refs', 'insts': [N(1), N(2, 1), "#3=HOLDER((#1,#2,#1),$,'t');", "#4=HOLDER((),#2,'u');"]}
    yield {'cls': 'select-ref', 'insts': [N(1), "#2=HOLDER((#1),#1,'t');", "#3=HOLDER((),DSTR('#1'),'#1');"]}
    yield {'cls': 'complex-parts', 'insts': [N(1), "#2=HOLDER((#1),$,'t');", '#3=(SUB1(#2)SUB2(5)SUP(#1));', '#4=SUB1(#1,#2);', '#5=(SUB2(7)SUP($));']}
    yield {'cls': 'forward-refs', 'insts': [N(1, 3, 2), N(2, 3), N(3)]}
    yield {'cls': 'chain-4', 'insts': [N(1, 2), N(2, 3), N(3, 4), N(4)]}
    # long reference chains: loading the head of a chain of unloaded instances nests one load per link
    for n in (70,):
        yield {'cls': 'chain-long', 'detail': str(n), 'insts': [N(i, i + 1 if i < n else None) for i in range(1, n + 1)]}
        yield {'cls': 'chain-long-backwards', 'detail': str(n), 'insts': [N(i, i - 1 if i > 1 else None) for i in range(1, n + 1)]}
    yield {'cls': 'cycle-4', 'insts': [N(1, 2), N(2, 3), N(3, 4), N(4, 1)]}
    yield {'cls': 'diamond', 'insts': [N(1, 2, 3), N(2, 4), N(3, 4), N(4)]}
    # instance names with leading zeros (the grammar allows them; the number is decimal) and files that are not written in ascending order
    yield {'cls': 'zero-padded-ids', 'insts': ['#001=NODE($,$,1);', '#002=NODE(#001,$,2);', '#010=NODE(#002,#1,10);', '#012=NODE(#010,#0002,12);', '#0020=NODE(#012,#10,20);', "#077=HOLDER((#010,#012),#020,'t');"]}
    yield {'cls': 'zero-padded-ids', 'insts': ['#08=NODE($,$,8);', '#09=NODE(#08,$,9);', '#0100=NODE(#09,#8,100);']}
    yield {'cls': 'unordered-ids', 'insts': [N(30), N(31, 30), N(32, 31, 30), "#40=HOLDER((#30,#31,#32),#12,'t');", N(12, 40 and None)]}
    yield {'cls': 'unordered-ids', 'insts': [N(50, 7), N(7), N(20, 50, 7), N(3, 20)]}
    yield {'cls': 'unordered-ids', 'insts': [N(9, 8), N(8, 7), N(7, 6), N(6)]}
    yield {'cls': 'sparse-ids', 'insts': ['#7=NODE($,$,7);', '#1000=NODE(#7,$,1);', '#999999=NODE(#1000,#7,2);', "#2147483000=HOLDER((#7,#999999),#1000,'big');"]}
    for s in ("'#1'", "'(#1)'", "'a;#1=NODE($,$,1);'", "'=#2'", "'/*#1*/'", "'it''s #1'", "'\\X\\23 1'", "'#'", "')'"):
        yield {'cls': 'string-content', 'detail': s, 'insts': [N(1), N(2), "#3=HOLDER((#2),$,%s);" % s]}
    # a comment at every token boundary of a simple and of a complex instance
    for c in ('/* c */', '/*(*/'):
        for form in ('#2%s=NODE(#1,$,2);', '#2=%sNODE(#1,$,2);', '#2=NODE%s(#1,$,2);', '#2=NODE(%s#1,$,2);', '#2=NODE(#1%s,$,2);', '#2=NODE(#1,$,2%s);', '#2=NODE(#1,$,2)%s;',
                     '#2=%s(SUB2(5)SUP(#1));', '#2=(%sSUB2(5)SUP(#1));', '#2=(SUB2%s(5)SUP(#1));', '#2=(SUB2(5)%sSUP(#1));', '#2=(SUB2(5)SUP(#1)%s);'):
            yield {'cls': 'comment-at-token-boundary', 'detail': form % c, 'where': form % '@', 'insts': [N(1), form % c, N(3, 2)]}
    for c in ('/* #1 */', '/* ; */', '/* ( */', "/* ' */", '/* #9=X(); */'):
        yield {'cls': 'comment-between-instances', 'detail': c, 'insts': [N(1), c, N(2, 1), c]}
        yield {'cls': 'comment-inside-instance', 'detail': c, 'insts': [N(1), '#2=NODE(%s#1,$,2);' % c, '#3=NODE($,$%s,3);' % c]}
    # every instance with a comment of its own, in front of it or behind the '=': whichever instance a load pulls in on the way, each one shows its own
    K = lambda i, where: ('/* about %d */ #%d=NODE' % (i, i)) if where == 'front' else ('#%d= /* about %d */ NODE' % (i, i))
    for where in ('front', 'after-equals'):
        for shape, refs in (('chain', {1: (2,), 2: (3,), 3: (4,), 4: ()}), ('backward-chain', {1: (), 2: (1,), 3: (2,), 4: (3,)}), ('diamond', {1: (2, 3), 2: (4,), 3: (4,), 4: ()}),
                            ('fan', {1: (), 2: (1,), 3: (1, 2), 4: (3, 1)})):
            yield {'cls': 'own-comment-per-instance', 'detail': '%s/%s' % (where, shape),
                   'insts': ['%s(%s,%s,%d);' % (K(i, where), ref(r[0] if r else None), ref(r[1] if len(r) > 1 else None), i) for i, r in sorted(refs.items())]}
    for sp in ('#1 =NODE($,$,1);', '#1= NODE($,$,1);', '#1=NODE ($,$,1);', '#1=NODE( $ , $ , 1 ) ;', '#1\n=\nNODE($,\n$,1);', '#1=NODE\n($,$,1);', '#1=NODE\t($,$,1);',
               '#1=NODE\r\n($,$,1);', '#1=\nNODE($,$,1);'):
        yield {'cls': 'spacing', 'detail': sp.replace('\n', '\\n'), 'insts': [sp, N(2, 1)]}


def comments_of(b):
    """the Part 21 comments in a STEPwrite text, in order (outside strings)"""
    return [m.group(1).strip() for m in re.finditer(rb"'(?:[^']|'')*'|/\*(.*?)\*/", b, re.S) if m.group(1) is not None]


def nocomment(b):
    """STEPwrite text without the Part 21 comments the eager reader keeps with an instance (comments need not survive)"""
    return re.sub(rb'/\*.*?\*/\s*', b'', b, flags=re.S).strip()


def file_of(insts):
    return smodel.HEADER % 'LZ' + '\n'.join(insts) + '\n' + smodel.FOOTER


_W = {}


def _init(libdir, sanlibdir=None):
    lib = build.SchemaLib(libdir, 'plain', [])
    _W['plainlib'] = lib if sanlibdir else None
    # the lazy loader runs on the sanitizer build: a crash is then attributed to its site
    _W['lz'] = drv.Driver('lazydrv', build.SchemaLib(sanlibdir, 'san', []) if sanlibdir else lib, 'san' if sanlibdir else 'plain', timeout=60, lazy=True)
    _W['eg'] = drv.Driver('p21drv', lib, 'plain', timeout=30)
    import atexit
    atexit.register(lambda: (_W['lz'].close(), _W['eg'].close()))


def closure(fwd, i):
    seen = set()
    todo = list(fwd.get(i, ()))
    while todo:
        x = todo.pop()
        if x in seen:
            continue
        seen.add(x)
        todo += list(fwd.get(x, ()))
    return seen


def run_file(case):
    """the sanitizer build of the lazy loader names the site of a crash.  A report of the undefined-behaviour sanitizer alone (e.g. a misaligned load in
    the bundled judy arrays) is not what this property is about: such a file is judged once more on the plain build, and only its result counts."""
    v, st = _run_file(case, _W['lz'])
    if any(k.startswith('crash/UB:') for k, _, _ in v) and _W.get('plainlib') is not None:
        if 'lzp' not in _W:
            _W['lzp'] = drv.Driver('lazydrv', _W['plainlib'], 'plain', timeout=60, lazy=True)
            import atexit
            atexit.register(_W['lzp'].close)
        v, st = _run_file(case, _W['lzp'])
        st['ub_only'] = 1
    return v, st


def _run_file(case, lz):
    """everything for one file: index/refs/deps comparison + BFS over loaded sets"""
    eg = _W['eg']
    lz.recycle_if_big()
    eg.recycle_if_big()
    text = file_of(case['insts'])
    path = os.path.join(lz.dir, 'in.stp')
    with open(path, 'w', encoding='latin1') as f:
        f.write(text)
    viol = []
    stats = {'states': 0, 'transitions': 0}
    ctx = case['cls']
    try:
        pop = p21ref.parse_file(text.encode('latin1'))
    except p21ref.P21Error as e:
        return [('harness/generator', 'non-conforming generated file: %s' % e, case)], stats
    want_fwd = {}
    for i in pop.insts:
        rs = set(p21ref.inst_refs(i))
        if rs:
            want_fwd[i.id] = rs
    want_rev = {}
    for k, vs in want_fwd.items():
        for v in vs:
            want_rev.setdefault(v, set()).add(k)
    try:
        eg.cmd('new')
        a = eg.cmd('read ' + path)
        esev = drv.kv(a[0])['esev']
        eager = {iid: (en, txt) for iid, st, en, txt in drv.parse_dump(eg.cmd('dump'))}
    except drv.Crash as e:
        eg.kill()
        return [('eager-crash/%s/%s' % e.key(), 'eager reader crashed (judged by C01/C05)', case)], stats
    if esev < 2 or sorted(eager) != sorted(i.id for i in pop.insts):
        return [('eager-rejects/%s' % ctx, 'the eager reader does not accept this conforming file (judged by C01): severity %d' % esev, case)], stats

    def lzcmd(c):
        return lz.cmd(c)
    try:
        o = drv.kv(lzcmd('open ' + path)[0])
        if o.get('sections', 1) == 0:
            return [('open-failed/%s' % (ctx if ctx != 'comment-at-token-boundary' else 'at:' + case['where']), 'the lazy loader registers no data section for this conforming file (%s): %s' % (case.get('detail', ''), lz._readlog()[-160:].decode('latin1').strip()), case)], stats
        idx = {}
        for l in lzcmd('index'):
            f = l.decode('latin1').split(' ')
            idx[int(f[1])] = f[2]
        stats['transitions'] += 1
        if sorted(idx) != sorted(eager):
            viol.append(('index-ids/%s' % ctx, 'index lists ids %s, the eager reader loads %s' % (sorted(idx), sorted(eager)), case))
        else:
            for iid, kw in idx.items():
                inst = pop.by_id()[iid]
                if inst.complex:
                    if kw not in ('', None):
                        viol.append(('index-keyword/complex', 'complex instance #%d indexed under keyword %r' % (iid, kw), case))
                elif kw.upper() != eager[iid][0].upper():
                    viol.append(('index-keyword/%s' % ctx, '#%d indexed as %r, eager entity %s' % (iid, kw, eager[iid][0]), case))
        got_fwd = {}
        for l in lzcmd('fwd'):
            f = l.decode().split(' ')
            got_fwd[int(f[1])] = [int(x) for x in f[2].split(',') if x]
        got_rev = {}
        for l in lzcmd('rev'):
            f = l.decode().split(' ')
            got_rev[int(f[1])] = [int(x) for x in f[2].split(',') if x]
        if {k: set(v) for k, v in got_fwd.items()} != want_fwd:
            viol.append(('forward-refs/%s' % ctx, 'forward table %s, the instances mention %s' % (got_fwd, {k: sorted(v) for k, v in want_fwd.items()}), case))
        if {k: set(v) for k, v in got_rev.items()} != want_rev:
            viol.append(('reverse-refs/%s' % ctx, 'reverse table %s, transpose of the mentions is %s' % (got_rev, {k: sorted(v) for k, v in want_rev.items()}), case))
        for iid in sorted(eager):
            d = lzcmd('deps %d' % iid)[0].decode().split()[1:]
            stats['transitions'] += 1
            want = closure(want_fwd, iid)
            if set(int(x) for x in d) != want:
                viol.append(('dependencies/%s' % ('cycle' if iid in want else ctx), 'dependencies of #%d: %s, transitive closure of the forward table is %s' % (iid, sorted(int(x) for x in d), sorted(want)), case))
        # BFS over loaded sets
        ids = sorted(eager)[:4] if not ctx.startswith('chain-long') else sorted(eager)[:2] + sorted(eager)[-2:]
        seen = {frozenset(): []}
        frontier = [[]]
        while frontier:
            hist = frontier.pop(0)
            for i in ids:
                stats['transitions'] += 1
                lzcmd('open ' + path)
                bad = False
                for step in hist + [i]:
                    a = lzcmd('load %d' % step)[0].decode('latin1').split(' ')
                    if a[2] == 'NULL':
                        viol.append(('load-null/%s' % ctx, 'loadInstance(#%d) returns nothing after %s' % (step, hist), dict(case, history=hist + [i])))
                        bad = True
                        break
                    same = a[3] == 'same=1'
                    txt = bytes.fromhex(a[5]) if len(a) > 5 else b''
                    if not same:
                        viol.append(('load-twice-differs', 'loading #%d twice gives two objects' % step, dict(case, history=hist + [i])))
                    if nocomment(txt) != nocomment(eager[step][1]):
                        why = 'reference-unresolved' if b'$' in txt and b'$' not in eager[step][1] else 'text'
                        viol.append(('load-serialisation/%s/%s' % (ctx, why), 'after loads %s, #%d serialises as %r, eagerly read %r' % (hist + [i], step, txt.decode('latin1').strip(), eager[step][1].decode('latin1').strip()),
                                     dict(case, history=hist + [i])))
                        bad = True
                        break
                    if comments_of(txt) != comments_of(eager[step][1]) and comments_of(txt):
                        # a comment may be lost on the way (not claimed); one that is SHOWN with an instance is a comment the eager reader shows with that instance
                        viol.append(('load-serialisation/%s/comment-of-another-instance' % ctx, 'after loads %s, #%d carries the comment(s) %r, eagerly read %r' % (
                            hist + [i], step, comments_of(txt), comments_of(eager[step][1])), dict(case, history=hist + [i])))
                        bad = True
                        break
                if bad:
                    continue
                # the tables describe the file, not the session: they must not change with what has been loaded
                for iid in sorted(eager):
                    d = lzcmd('deps %d' % iid)[0].decode().split()[1:]
                    want = closure(want_fwd, iid)
                    if set(int(x) for x in d) != want and not any(v[0].startswith('dependencies/') for v in viol):
                        viol.append(('dependencies-after-load/%s' % ('cycle' if iid in want else ctx), 'after loads %s the dependencies of #%d are %s, transitive closure of the forward table is %s' % (
                            hist + [i], iid, sorted(int(x) for x in d), sorted(want)), dict(case, history=hist + [i])))
                f2 = {}
                for l in lzcmd('fwd'):
                    f = l.decode().split(' ')
                    f2[int(f[1])] = [int(x) for x in f[2].split(',') if x]
                if f2 != got_fwd:
                    viol.append(('forward-refs-after-load/%s' % ctx, 'after loads %s the forward table is %s, before %s' % (hist + [i], f2, got_fwd), dict(case, history=hist + [i])))
                s = frozenset(hist + [i])
                if s not in seen:
                    seen[s] = hist + [i]
                    frontier.append(hist + [i])
        stats['states'] = len(seen)
    except drv.Crash as e:
        lz.kill()
        viol.append(('crash/%s/%s' % (e.key()[0], e.key()[1]), 'the lazy loader crashed on %r (%s)' % (e.cmd, ctx), dict(case, log=e.log[-800:].decode('latin1'))))
    if ctx == 'comment-at-token-boundary' and viol:
        # keyed by the place of the comment: which places the scanner gets wrong is a finding each
        return [('comment-handling/at:%s' % case['where'], viol[0][1], case)], stats
    if ctx.startswith('comment-') and viol:
        # one root cause: comments are not token separators for the index scanner
        return [('comment-handling/%s' % ctx, viol[0][1], case)], stats
    return viol, stats


def replay(path):
    obj = json.load(open(path))
    c = obj['case']
    lib = build.schema_lib(SCHEMA, 'plain')
    _init(lib.dir, build.schema_lib(SCHEMA, 'san').dir)
    v, st = run_file(c)
    print(file_of(c['insts']))
    for k, w, _ in v:
        print(k, '-', w)
    return 1 if v else 0


def main():
    args = common.parse_args(sys.argv[1:])
    if args.replay:
        sys.exit(replay(args.replay))
    chk = common.Check(PID, args.tier, deadline_s=args.deadline)
    lib = build.schema_lib(SCHEMA, 'plain')
    chk.rule = ('populations: ALL digraphs on 1-3 NODE instances with two optional reference attributes each (self loops, cycles), references in aggregates, selects, complex parts, '
                'forward references, chains/cycles/diamonds on 4, sparse and large ids, strings and comments containing # ( ) ; = /*, spacing inside "#1 = KW ("; for every file: index, '
                'forward and reverse tables, dependencies of every instance, and BFS over the set of loaded instances (every loadInstance order incl. repetition, state = set loaded) '
                'comparing each loaded instance\'s STEPwrite text with the eagerly read one')
    chk.assumptions = ['p21ref decides which ids an instance mentions', 'a file the eager reader itself rejects is judged by C01, not here']
    cases = list(digraph_files()) + list(shaped_files())
    if args.tier == 'thorough':
        N = lambda i, a=None: '#%d=NODE(%s,$,%d);' % (i, ref(a), i)
        for n in (63, 64, 65, 66, 130, 300):
            cases.append({'cls': 'chain-long', 'detail': str(n), 'insts': [N(i, i + 1 if i < n else None) for i in range(1, n + 1)]})
            cases.append({'cls': 'chain-long-backwards', 'detail': str(n), 'insts': [N(i, i - 1 if i > 1 else None) for i in range(1, n + 1)]})
        cases += list(mixed_files())
        chk.rule += '; thorough: every kind assignment (NODE / HOLDER list / complex) to 3 instances with every reference choice, all functional graphs on 4 nodes and those plus ring edges'
    sanlib = build.schema_lib(SCHEMA, 'san')
    with mp.get_context('fork').Pool(common.NCPU, initializer=_init, initargs=(lib.dir, sanlib.dir)) as pool:
        res = pool.map(run_file, cases, 8)
    for c, (viol, st) in zip(cases, res):
        chk.count(states=max(1, st['states']), transitions=max(1, st['transitions']))
        if st.get('ub_only'):
            chk.extra['files_judged_on_the_plain_build_after_an_undefined_behaviour_report'] = chk.extra.get('files_judged_on_the_plain_build_after_an_undefined_behaviour_report', 0) + 1
        chk.cls(c['cls'])
        if not viol:
            chk.outcome('equal')
            chk.sample({'cls': c['cls'], 'insts': c['insts']}, maxn=6)
        for k, w, case in viol:
            chk.outcome(k.split('/')[0])
            if k.startswith(('eager-rejects/', 'eager-crash/')):
                continue            # no eager reading to compare with: that file is C01's / C05's to judge, nothing is claimed here
            chk.violation('%s/%s' % (PID, k), w, case)
    chk.bounds = {'files': len(cases), 'max_loaded_set': 4}
    if chk.outcomes.get('equal', 0) == 0:
        chk.harness_error('vacuous: %s' % dict(chk.outcomes))
    sys.exit(chk.finish())


if __name__ == '__main__':
    main()
