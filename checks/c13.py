#!/usr/bin/python3
"""C13 -- the instance manager stays consistent under any sequence of operations.

Model checking: bounded EXHAUSTIVE breadth-first exploration of operation histories on the real
InstMgr (driver instmgr_mc, sanitizer build).  Every operation of the alphabet is applied in every
distinct state up to the depth bound; after every transition all public queries are compared with a
list+dict reference model.  Nothing is sampled.

  /verif/bin/check C13 [--tier quick|thorough] [--replay FILE]
"""
import sys, os, json, time, subprocess
sys.path.insert(0, '/verif')
from vlib import common, build

# (manager kind, depth) per tier.  own/non = owning / non-owning manager; "-small" = the master array
# starts with capacity 1 so that the growth path of GenNodeArray is reached within the bound.
PLAN = {
    'quick': [(6, ['own', 'non', 'own-small', 'non-small'])],
    'thorough': [(8, ['own-small']), (7, ['own', 'non', 'non-small'])],
}

RULE = ('after every operation of every history: InstanceCount = live instances; index i holds the i-th survivor in insertion '
        'order and node/GetIndex report i; FindFileId(k) = the live instance carrying k, NULL for every other k in 0..max seen+1; '
        'automatically assigned ids are not live and above every id seen since the manager was last emptied; MaxFileId >= every live id; '
        'GetApplication_instance(name,start) = first match at or after start for every start in 0..count; EntityKeywordCount and '
        'VerifyEntity agree with the model; no sanitizer report; identical canonical state on every replay of a history')

ASSUMPTIONS = [
    'An id of 0 means "no id": Append assigns one automatically (instmgr.cc comment above Append). The first automatic id of an empty manager is 0 '
    '(maxFileId starts at -1); the property only asks for fresh and above every id seen, so id 0 itself is accepted; its consequences are judged by the other clauses.',
    'Append of a new instance whose id is carried by a live instance may either be rejected (NULL, nothing changes) or accepted with a renumbered id that is '
    'fresh and above every id seen; accepting it with the same id (two live instances with one id) would be a violation.',
    'Append of an instance that is already in the manager must leave every query unchanged; the return value (NULL or the existing node) is not judged.',
    '"Emptied" is read in the weakest way: ClearInstances, DeleteInstances, or a Delete that removes the last instance all reset the set of ids seen.',
    'InstMgr::Delete deletes the instance together with its node for owning and non-owning managers alike (documented in mgrnode.h); the harness never touches an '
    'instance after Delete/DeleteInstances or after the destructor of an owning manager. ClearInstances hands the instances back whatever the ownership flag says.',
    'Only in-range indices are queried (0..count-1; start indices 0..count); out-of-range behaviour is not documented. GetIndex(SDAI_Application_instance*) is declared in '
    'instmgr.h but defined nowhere, so it cannot be called; GetIndex(MgrNode*) and MgrNode::ArrayIndex() are compared instead.',
    'A transition that disagrees with the model (or crashes) has no successor: the model has no meaning after a contract break, so histories are not extended beyond it.',
    'States are de-duplicated on a 128-bit hash of the canonical form (all query answers as indices + capacity, _count, maxFileId, ownership flag, id map, released pool).',
    'The small-capacity manager kinds replace InstMgr::master by MgrNodeArray(1) (public constructor argument) right after construction; nothing else is altered.',
]

VACUITY = ['Delete-node:removed', 'Delete-node:emptied', 'Delete-instance:removed', 'Append-auto:accepted', 'Append-explicit-high:accepted',
           'Append-explicit-low:reused-deleted-id', 'Append-same-instance:unchanged', 'Append-released:accepted-same-id',
           'Append-released:renumbered', 'ChangeState:changed', 'ClearInstances:released', 'DeleteInstances:deleted', 'NextFileId:handed-out',
           'MaxFileId-strictly-above-every-live-id']


def env():
    e = dict(common.BASE_ENV)
    e.update(common.ASAN_ENV)
    return e


def op_table(exe):
    rc, out, err = common.run([exe, 'ops'], env=common.ASAN_ENV, timeout=60)
    if rc != 0:
        raise SystemExit('HARNESS: instmgr_mc ops failed: %r' % err[-500:])
    t = {}
    for l in out.decode().split('\n'):
        f = l.split()
        if len(f) == 2:
            t[f[0]] = f[1]
    return t


def replay(exe, kind, ops, timeout=120):
    """-> dict(rc, steps[list of dict], violation(key, what) or None, san(cls, fn) or None, stderr)"""
    rc, out, err = common.run([exe, 'replay', kind, ','.join(ops)], env=common.ASAN_ENV, timeout=timeout)
    steps = []
    for l in out.decode('latin1').split('\n'):
        l = l.strip()
        if not l:
            continue
        try:
            steps.append(json.loads(l))
        except ValueError:
            steps.append({'partial': l})     # the line the process died in
    viol = None
    for s in steps:
        if 'violation' in s:
            viol = ('C13/' + s['violation']['key'], s['violation']['what'])
    san = None
    if rc not in (0, 1):
        san = common.sanitizer_key(err)
        if san is None:
            san = ('exit%s' % rc if rc is None or rc >= 0 else 'signal%d' % -rc, 'unknown')
    return {'rc': rc, 'steps': steps, 'violation': viol, 'san': san, 'stderr': err}


def crash_key(optab, ops, phase, san):
    cls, fn = san
    if cls == 'signal14':
        cls, fn = 'hang', 'no-return-within-6s'       # the explorer arms alarm(6) around every transition
    if phase == 'destruction':
        where = 'destruction'
    else:
        where = optab.get(ops[-1], ops[-1]) if ops else 'fresh-manager'
    return 'C13/%s/%s@%s' % (where, cls, fn)


def describe(rep):
    return [s.get('desc', s.get('op', '?')) for s in rep['steps'] if 'step' in s and s.get('step', 0) >= 1 and 'desc' in s]


def do_replay(path):
    exe = build.driver('instmgr_mc', 'san')
    with open(path) as f:
        case = json.load(f)['case']
    rep = replay(exe, case['kind'], case['ops'])
    print('manager kind: %s   history: %s' % (case['kind'], ' '.join(case['ops'])))
    for s in rep['steps']:
        if 'partial' in s:
            print('  (process died here) %s' % s['partial'])
            continue
        print('step %s %-5s %s' % (s.get('step'), s.get('op'), s.get('desc', '')))
        if 'expected' in s:
            print('    expected (model): %s' % s['expected'])
            print('    observed (impl) : %s' % s['observed'])
        if 'violation' in s:
            print('    VIOLATION C13/%s: %s' % (s['violation']['key'], s['violation']['what']))
        if 'error' in s:
            print('    ERROR %s' % s['error'])
    if rep['san']:
        print('sanitizer/crash: %s @ %s' % rep['san'])
        sys.stdout.write(rep['stderr'].decode('latin1')[:6000] + '\n')
        return 1
    if rep['violation']:
        return 1
    if rep['rc'] != 0:
        print('driver exit code %s' % rep['rc'])
        return 2
    print('no violation: the history now agrees with the model')
    return 0


def main():
    args = common.parse_args(sys.argv[1:])
    if args.replay:
        return do_replay(args.replay)
    chk = common.Check('C13', args.tier, deadline_s=args.deadline)
    chk.rule = RULE
    chk.assumptions = ASSUMPTIONS
    exe = build.driver('instmgr_mc', 'san')     # rebuilds /repo's working tree first
    optab = op_table(exe)
    plan = PLAN[args.tier]
    jobs = max(1, min(common.NCPU, 64))
    outcomes = {}
    per_kind = {}
    viols = []
    crashes = []
    pruned = 0
    for depth, kinds in plan:
        left = chk.deadline.left()
        if left <= 5:
            chk.deadline.hit = True
            chk.cap('kinds %s at depth %d not run: deadline' % (','.join(kinds), depth))
            continue
        t0 = time.time()
        rc, out, err = common.run([exe, 'explore', str(depth), str(jobs), ','.join(kinds)], env=common.ASAN_ENV, timeout=left)
        if rc is None:
            chk.deadline.hit = True
            chk.cap('exploration of %s at depth %d stopped by the deadline' % (','.join(kinds), depth))
            continue
        if rc != 0:
            chk.harness_error('explorer exit code %s for %s depth %d: %s' % (rc, kinds, depth, err.decode('latin1')[-1500:]))
            continue
        try:
            res = json.loads(out.decode('latin1'))
        except ValueError as ex:
            chk.harness_error('explorer output unparsable (%s)' % ex)
            continue
        for k in res['kinds']:
            per_kind[k['kind']] = {'depth': depth, 'states': k['states'], 'transitions': k['transitions'], 'levels': k['levels'],
                                   'wall_s': None}
            chk.count(states=k['states'], transitions=k['transitions'])
            for o, n in k['outcomes'].items():
                outcomes[o] = outcomes.get(o, 0) + n
            if 'small' in k['kind'] and k['outcomes'].get('array-grown', 0) == 0 and not res['violations'] and not res['crashes']:
                chk.harness_error('kind %s: the array never grew' % k['kind'])
            if k.get('aborted'):
                chk.cap('kind %s: %s' % (k['kind'], k['aborted']))
            chk.sample('%s depth<=%d: %s' % (k['kind'], depth, ' '.join('%d:%d/%d' % (l['depth'], l['new_states'], l['transitions']) for l in k['levels'])))
        per_kind['_wall_depth_%d' % depth] = round(time.time() - t0, 1)
        for he in res['harness_errors']:
            chk.harness_error(he)
        viols += res['violations']
        crashes += res['crashes']
    # ---- model disagreements: confirm each minimal history twice in a fresh process
    merged = {}
    for v in viols:                      # one entry per key: first (shallowest, first kind) history, counts added up
        if v['key'] in merged:
            merged[v['key']]['count'] += v['count']
        else:
            merged[v['key']] = dict(v)
    for v in merged.values():
        key = 'C13/' + v['key']
        pruned += v['count']
        r1 = replay(exe, v['kind'], v['ops'])
        r2 = replay(exe, v['kind'], v['ops'])
        if not (r1['violation'] and r2['violation'] and r1['violation'][0] == key and r2['violation'][0] == key):
            chk.harness_error('violation %s (kind %s, %s) did not reproduce identically on two stand-alone replays: %r / %r' % (
                key, v['kind'], ' '.join(v['ops']), r1['violation'] or r1['san'], r2['violation'] or r2['san']))
            continue
        desc = describe(r1)
        what = '%s manager, after [%s]: %s' % (v['kind'], '; '.join(desc), v['what'])
        chk.violation(key, what, {'kind': v['kind'], 'ops': v['ops'], 'described': desc})
        chk.viol[key]['count'] = v['count']
    # ---- crashes / sanitizer reports: bisected by the explorer to one history; replay alone twice
    seen_crash = {}
    for c in crashes:
        san = common.sanitizer_key(c['stderr'].encode('latin1'))
        if san is None:
            san = ('signal%d' % c['signal'] if c['signal'] else 'exit%d' % c['status'], 'unknown')
        key = crash_key(optab, c['ops'], c['phase'], san)
        pruned += 1
        if key in seen_crash:
            if key in chk.viol:
                chk.viol[key]['count'] += 1
            continue
        seen_crash[key] = 1
        r1 = replay(exe, c['kind'], c['ops'])
        r2 = replay(exe, c['kind'], c['ops'])
        if not (r1['san'] and r2['san'] and r1['san'] == r2['san']):
            chk.harness_error('crash %s (kind %s, %s) did not reproduce on two stand-alone replays: %r / %r' % (
                key, c['kind'], ' '.join(c['ops']), r1['san'] or r1['violation'], r2['san'] or r2['violation']))
            continue
        key = crash_key(optab, c['ops'], c['phase'], r1['san'])
        seen_crash[key] = 1
        desc = describe(r1)
        what = '%s manager: %s in %s during %s of the last step of [%s]' % (c['kind'], r1['san'][0], r1['san'][1], c['phase'], ' '.join(c['ops']))
        chk.violation(key, what, {'kind': c['kind'], 'ops': c['ops'], 'described': desc, 'phase': c['phase']})
    # ---- coverage
    for o, n in sorted(outcomes.items()):
        chk.outcome(o, n)
        if ':' in o:
            chk.cls(o.split(':')[0], n)
    if not chk.caps:
        for o in VACUITY:
            if outcomes.get(o, 0) == 0:
                opc = o.split(':')[0]
                if not any(opc in k for k in chk.viol):
                    chk.harness_error('vacuous: outcome %r never occurred' % o)
    chk.bounds['depth'] = {k: v['depth'] for k, v in per_kind.items() if isinstance(v, dict)}
    chk.bounds['alphabet_operations'] = len(optab)
    chk.bounds['manager_kinds'] = sorted(k for k, v in per_kind.items() if isinstance(v, dict))
    chk.extra['per_kind'] = per_kind
    chk.extra['transitions_without_successor'] = pruned
    chk.extra['operations'] = sorted(set(optab.values()))
    return chk.finish()


if __name__ == '__main__':
    sys.exit(main())
