// Dictionary seam: walks the run-time dictionary registered by a schema library through the public
// descriptor getters only and prints it in a canonical line format on fd 3.
//   E <name> abstract=<0|1> supers=<a,b> subs=<c,d>
//   A <entity> <k> <name> kind=<explicit|derived|redefining|inverse> opt=<0|1> type=<TypeName> prim=<n> aggr=<0|1>
//   S <entity> <attribute> <structure of its aggregate type: kind[b1:b2]u<unique>o<optional> ... /<element type>>
//   V <entity> <k> <name> inv_entity=<e> inv_attr=<a>
//   I <entity> <k> <attribute name of a fresh instance>
//   T <name> fund=<n> desc=<hex of Description>  [enum=<a,b,c>] [select=<a,b>] [aggr=<kind> b1=<n> b2=<n> uniq=<0|1> optl=<0|1> elem=<type name>] [ref=<name>]
#include "drv_common.h"
#include "clstepcore/ExpDict.h"
#include "clstepcore/STEPaggregate.h"
#include <set>

static std::string lower( const char * s ) {
    std::string o( s ? s : "" );
    for( size_t i = 0; i < o.size(); i++ ) {
        o[i] = tolower( o[i] );
    }
    return o;
}

// structure of an aggregate type as the descriptors hold it:  kind[b1:b2]u<unique>o<optional elements> ... /<element type name>
static std::string aggr_struct( const TypeDescriptor * t, int depth = 0 ) {
    if( !t ) {
        return "?";
    }
    const TypeDescriptor * nr = t->NonRefTypeDescriptor();
    if( !t->IsAggrType() || !nr || depth > 6 ) {
        return "/" + lower( t->Name() );
    }
    AggrTypeDescriptor * a = ( AggrTypeDescriptor * ) nr;
    const char * kind = "aggr";
    int optl = 0;
    switch( nr->FundamentalType() ) {
        case ARRAY_TYPE:
            kind = "array";
            optl = ( ( ArrayTypeDescriptor * ) nr )->OptionalElements().asInt() == LTrue ? 1 : 0;
            break;
        case LIST_TYPE:
            kind = "list";
            break;
        case SET_TYPE:
            kind = "set";
            break;
        case BAG_TYPE:
            kind = "bag";
            break;
        default:
            break;
    }
    char buf[200];
    char b1[40], b2[40];
    // a bound the schema does not give stays unset in the descriptor: EXPRESS defaults [0:?]
    if( a->Bound1Type() == bound_constant ) {
        snprintf( b1, sizeof b1, "%ld", ( long ) a->Bound1() );
    } else if( a->Bound1Type() == bound_unset ) {
        snprintf( b1, sizeof b1, "0" );
    } else {
        snprintf( b1, sizeof b1, "?%d", ( int ) a->Bound1Type() );
    }
    if( a->Bound2Type() == bound_constant ) {
        snprintf( b2, sizeof b2, "%ld", ( long ) a->Bound2() );
    } else if( a->Bound2Type() == bound_unset ) {
        snprintf( b2, sizeof b2, "2147483647" );
    } else {
        snprintf( b2, sizeof b2, "?%d", ( int ) a->Bound2Type() );
    }
    snprintf( buf, sizeof buf, "%s[%s:%s]u%do%d", kind, b1, b2, a->UniqueElements().asInt() == LTrue ? 1 : 0, optl );
    return std::string( buf ) + aggr_struct( a->AggrElemTypeDescriptor(), depth + 1 );
}

static void dump_type( const TypeDescriptor * t ) {
    fprintf( g_out, "T %s fund=%d desc=%s", lower( t->Name() ).c_str(), ( int ) t->FundamentalType(), hexenc( t->Description() ? t->Description() : "" ).c_str() );
    if( t->ReferentType() ) {
        fprintf( g_out, " ref=%s", lower( t->ReferentType()->Name() ).c_str() );
    }
    PrimitiveType ft = t->NonRefType();
    const TypeDescriptor * nr = t->NonRefTypeDescriptor();
    if( ft == ENUM_TYPE && nr ) {
        EnumTypeDescriptor * etd = ( EnumTypeDescriptor * ) nr;
        SDAI_Enum * e = etd->CreateEnum();
        if( e ) {
            fprintf( g_out, " enum=" );
            for( int i = 0; i < e->no_elements(); i++ ) {
                fprintf( g_out, "%s%s", i ? "," : "", lower( e->element_at( i ) ).c_str() );
            }
        }
    } else if( ft == SELECT_TYPE && nr ) {
        SelectTypeDescriptor * std_ = ( SelectTypeDescriptor * ) nr;
        fprintf( g_out, " select=" );
        TypeDescLinkNode * n = ( TypeDescLinkNode * ) std_->Elements().GetHead();
        int k = 0;
        while( n ) {
            fprintf( g_out, "%s%s", k++ ? "," : "", lower( n->TypeDesc()->Name() ).c_str() );
            n = ( TypeDescLinkNode * ) n->NextNode();
        }
    } else if( t->IsAggrType() && nr ) {
        AggrTypeDescriptor * a = ( AggrTypeDescriptor * ) nr;
        const char * kind = "aggr";
        switch( nr->FundamentalType() ) {
            case ARRAY_TYPE:
                kind = "array";
                break;
            case LIST_TYPE:
                kind = "list";
                break;
            case SET_TYPE:
                kind = "set";
                break;
            case BAG_TYPE:
                kind = "bag";
                break;
            default:
                break;
        }
        fprintf( g_out, " aggr=%s", kind );
        if( a->Bound1Type() == bound_constant ) {
            fprintf( g_out, " b1=%ld", ( long ) a->Bound1() );
        } else {
            fprintf( g_out, " b1=?%d", ( int ) a->Bound1Type() );
        }
        if( a->Bound2Type() == bound_constant ) {
            fprintf( g_out, " b2=%ld", ( long ) a->Bound2() );
        } else {
            fprintf( g_out, " b2=?%d", ( int ) a->Bound2Type() );
        }
        fprintf( g_out, " uniq=%d", a->UniqueElements().asInt() == LTrue ? 1 : 0 );
        fprintf( g_out, " struct=%s", aggr_struct( t ).c_str() );
        const TypeDescriptor * el = a->AggrElemTypeDescriptor();
        fprintf( g_out, " elem=%s", el ? lower( el->Name() ).c_str() : "?" );
        // the same question put to the type itself (for 'TYPE l2 = l' the descriptor of l2, which has to look through the renaming)
        const TypeDescriptor * el2 = t->AggrElemTypeDescriptor();
        fprintf( g_out, " telem=%s", el2 ? lower( el2->Name() ).c_str() : "?" );
    }
    fputc( '\n', g_out );
}

int main( int argc, char ** argv ) {
    SchemaInitFn init = drv_load( argc, argv );
    Registry * reg = new Registry( init );
    fputs( "ready\n", g_out );
    done();
    std::string line;
    while( std::getline( std::cin, line ) ) {
        drv_logreset();
        if( line == "quit" ) {
            break;
        } else if( line == "entities" ) {
            reg->ResetEntities();
            const EntityDescriptor * ed;
            while( ( ed = reg->NextEntity() ) ) {
                fprintf( g_out, "E %s abstract=%d supers=", lower( ed->Name() ).c_str(), ed->AbstractEntity().asInt() == LTrue ? 1 : 0 );
                EntityDescLinkNode * n = ( EntityDescLinkNode * ) ed->Supertypes().GetHead();
                int k = 0;
                while( n ) {
                    fprintf( g_out, "%s%s", k++ ? "," : "", lower( n->EntityDesc()->Name() ).c_str() );
                    n = ( EntityDescLinkNode * ) n->NextNode();
                }
                fprintf( g_out, " subs=" );
                n = ( EntityDescLinkNode * ) ed->Subtypes().GetHead();
                k = 0;
                while( n ) {
                    fprintf( g_out, "%s%s", k++ ? "," : "", lower( n->EntityDesc()->Name() ).c_str() );
                    n = ( EntityDescLinkNode * ) n->NextNode();
                }
                fputc( '\n', g_out );
                AttrDescLinkNode * an = ( AttrDescLinkNode * ) ed->ExplicitAttr().GetHead();
                k = 0;
                while( an ) {
                    const AttrDescriptor * ad = an->AttrDesc();
                    const char * kind = "explicit";
                    if( ad->Redefining() == LTrue ) {
                        kind = "redefining";
                    } else if( ad->Deriving() == LTrue ) {
                        kind = "derived";
                    }
                    fprintf( g_out, "A %s %d %s kind=%s opt=%d type=%s prim=%d aggr=%d\n", lower( ed->Name() ).c_str(), k++, lower( ad->Name() ).c_str(), kind,
                             ad->Optional().asInt() == LTrue ? 1 : 0, lower( ad->TypeName().c_str() ).c_str(), ( int ) ad->NonRefType(), ad->IsAggrType() ? 1 : 0 );
                    if( ad->IsAggrType() && ad->DomainType() ) {
                        fprintf( g_out, "S %s %s %s\n", lower( ed->Name() ).c_str(), lower( ad->Name() ).c_str(), aggr_struct( ad->DomainType() ).c_str() );
                    }
                    an = ( AttrDescLinkNode * ) an->NextNode();
                }
                Inverse_attributeLinkNode * in = ( Inverse_attributeLinkNode * ) ed->InverseAttr().GetHead();
                k = 0;
                while( in ) {
                    const Inverse_attribute * ia = in->Inverse_attr();
                    // resolved: the FOR attribute as a descriptor (set when the schema is initialised, for every entity registered as having inverse attributes)
                    const AttrDescriptor * fa = ia->inverted_attr_();
                    fprintf( g_out, "V %s %d %s inv_entity=%s inv_attr=%s resolved=%s\n", lower( ed->Name() ).c_str(), k++, lower( ia->Name() ).c_str(),
                             lower( ia->inverted_entity_id_() ).c_str(), lower( ia->inverted_attr_id_() ).c_str(), fa ? lower( fa->Name() ).c_str() : "-" );
                    in = ( Inverse_attributeLinkNode * ) in->NextNode();
                }
            }
        } else if( line == "types" ) {
            reg->ResetTypes();
            const TypeDescriptor * t;
            while( ( t = reg->NextType() ) ) {
                dump_type( t );
            }
        } else if( line.compare( 0, 9, "instance " ) == 0 ) {
            std::string nm = line.substr( 9 );
            SDAI_Application_instance * se = reg->ObjCreate( nm.c_str() );
            if( !se || se == ENTITY_NULL ) {
                fputs( "ERR nocreate\n", g_out );
            } else {
                int n = se->attributes.list_length();
                for( int i = 0; i < n; i++ ) {
                    STEPattribute * a = &se->attributes[i];
                    fprintf( g_out, "I %s %d %s derived=%d redef=%d null=%d\n", lower( nm.c_str() ).c_str(), i, lower( a->Name() ).c_str(), a->IsDerived() ? 1 : 0,
                             a->aDesc->AttrType() == AttrType_Redefining ? 1 : 0, a->is_null() ? 1 : 0 );
                }
            }
        } else {
            fputs( "ERR unknown\n", g_out );
        }
        done();
    }
    fflush( g_out );
    _exit( 0 );
}
