#!/usr/bin/python3
"""C16 - working-session files round-trip populations with per-instance state.
E-hist: populations of n<=3 (thorough 4) instances (complete and partially filled) x ALL 4^n
assignments of {complete, incomplete, new, delete} x the history save -> load -> save -> load -> save,
on the real STEPfile through p21drv, against a dict model of the session."""
import sys, os, json, re, itertools
sys.path.insert(0, '/verif')
sys.path.insert(0, '/verif/checks')
from vlib import common, build, smodel, p21ref, p21run, drv

PID = 'C16'
STATES = 'CIND'

# (entity, params, partially_filled, referenced support ids)
TEMPLATES = {
    'fk': [('E_INTE', ['7'], False), ('E_REF', ['#1'], False), ('E_ENUM', ['$'], True), ('E_LIST_STR', ["('a;','b''c)','#9=E_INTE(1);')"], False),
           ('E_REF', ['$'], True), ('O_STRI', ['$'], False), ('E_SELDEF', ['DINT(7)'], False), ('P_INTE_STRI', ['7', "'nut; M6 (x)'"], False),
           ('E_LIST_REF', ['(#1,#2)'], False), ('E_BOO', ['$'], True)],
    'fi': [('C3', ['7', "'abc'", '1.5', '.RED.', "('p','q')"], False), ('D3', ['7', "'s'", '2.5', '.GREEN.'], False),
           ('AB2', ["'nm'", '2.5', '$'], True), ('K1', ['DINT(7)', '(#1)', '$', '(1.5,2.5)'], False),
           ('@complex', "(C1(7,'abc')C2(1.5))", False), ('V1', ['1.5', '*', '7'], False)],
}


HDR_OPTIONAL = {'language': "SECTION_LANGUAGE($,'EN');\n", 'context': "SECTION_CONTEXT($,('ctx'));\n", 'population': "FILE_POPULATION('gs','',$);\n"}


def with_header(text, names):
    """the same file with optional header entities (ISO 10303-21 edition 2) behind FILE_SCHEMA"""
    i = text.index('ENDSEC;')
    return text[:i] + ''.join(HDR_OPTIONAL[n] for n in names) + text[i:]


def population(fam, combo, comments=False):
    insts = [smodel.inst_text(1, 'TGT', ['11']), smodel.inst_text(2, 'TGT', ['22'])]
    ids = []
    for k, (ent, params, partial) in enumerate(combo):
        iid = 10 + k
        if ent == '@complex':
            insts.append('#%d=%s;' % (iid, params))
        else:
            insts.append(smodel.inst_text(iid, ent, params))
        ids.append(iid)
    if comments:
        # a Part 21 comment in front of every instance: the library keeps it with the instance it precedes
        insts = ['/* note on %s */\n%s' % (i.split('=')[0], i) for i in insts]
    return smodel.file_text(fam.name, insts), ids


def session_case(case):
    """history on one driver: read X; write E0; set states; writews W1; new; readws W1; dump; write E1;
    writews W2; new; readws W2; dump; writews W3"""
    d = p21run._G['d']
    d.recycle_if_big()
    D = d.dir
    paths = {k: os.path.join(D, k) for k in ('x', 'e0', 'w1', 'e1', 'w2', 'w3')}
    for p in paths.values():
        try:
            os.remove(p)
        except OSError:
            pass
    with open(paths['x'], 'wb') as f:
        f.write(case['text'].encode('latin1'))
    res = {}
    rd = lambda p: open(p, 'rb').read() if os.path.exists(p) else None
    try:
        d.cmd('new')
        res['read'] = drv.kv(d.cmd('read ' + paths['x'])[0])
        res['dump0'] = drv.parse_dump(d.cmd('dump'))
        d.cmd('write ' + paths['e0'])
        res['e0'] = rd(paths['e0'])
        for iid, st in case['states']:
            a = d.cmd('setstate %d %s' % (iid, st))
            if a[0] != b'ok':
                res['setstate_failed'] = iid
        res['dump_set'] = drv.parse_dump(d.cmd('dump'))
        if case.get('fail_before_save'):
            # an operation that fails (a file that does not exist) leaves the session as it is - and savable
            res['failed_op'] = drv.kv(d.cmd('%s %s' % (case['fail_before_save'], os.path.join(D, 'no-such-file.stp')))[0])
            res['dump_after_failed_op'] = drv.parse_dump(d.cmd('dump'))
        d.cmd('writews ' + paths['w1'])
        res['w1'] = rd(paths['w1'])
        if not case.get('same'):
            d.cmd('new')            # a fresh InstMgr/STEPfile; otherwise the session file is loaded back into the very same objects
        if case.get('prior_before_load'):
            # the loading session has read another file before (with more header entities): loading replaces all of it
            pp = os.path.join(D, 'prior.stp')
            with open(pp, 'wb') as f:
                f.write(case['prior_before_load'].encode('latin1'))
            d.cmd('read ' + pp)
        res['readws1'] = drv.kv(d.cmd('readws ' + paths['w1'])[0])
        res['dump1'] = drv.parse_dump(d.cmd('dump'))
        d.cmd('writews ' + paths['w2'])
        res['w2'] = rd(paths['w2'])
        d.cmd('write ' + paths['e1'])
        res['e1'] = rd(paths['e1'])
        if not case.get('same'):
            d.cmd('new')
        res['readws2'] = drv.kv(d.cmd('readws ' + paths['w2'])[0])
        res['dump2'] = drv.parse_dump(d.cmd('dump'))
        d.cmd('writews ' + paths['w3'])
        res['w3'] = rd(paths['w3'])
    except drv.Crash as e:
        res.update(p21run.crash_result(e))
    return res


def strip_deleted(w):
    """working-session text with the instances in state D removed (whole lines)"""
    pop = p21ref.parse_file(w, working=True)
    out = bytearray()
    pos = 0
    starts = {int(m.group(1)): m.start() for m in re.finditer(rb'D\s*(?:/\*.*?\*/\s*)*#(\d+)\s*=', w, re.S)}
    for i in pop.insts:
        if i.state == 'D':
            s, e = i.span
            s = starts.get(i.id, s - 1)     # the state letter (a comment kept with the instance stands between the letter and the name)
            while s > 0 and w[s - 1:s] in (b' ', b'\t'):
                s -= 1
            while e < len(w) and w[e:e + 1] in (b'\n', b'\r'):
                e += 1
            out += w[pos:s]
            pos = e
    out += w[pos:]
    return bytes(out)


def judge(case, res):
    out = []
    part = {iid: p for iid, p in case['partial']}
    st = dict(case['states'])
    shape = 'n=%d' % len(st)
    if 'crash' in res:
        return [('crash/%s/%s' % tuple(res['crash']), 'crash %s in %s' % tuple(res['crash']))]
    if case.get('dangling'):
        o2 = []
        t1 = [(iid, s, t) for iid, s, en, t in res.get('dump1', [])]
        t2 = [(iid, s, t) for iid, s, en, t in res.get('dump2', [])]
        if t1 != t2:
            bad = next((a for a, b in zip(t1, t2) if a != b), t1[-1] if len(t1) > len(t2) else (t2[-1] if t2 else None))
            o2.append(('unstable-after-deleting-a-referenced-instance/population', 'the second load differs from the first: %r' % (bad,)))
        if res.get('w2') is not None and res.get('w3') is not None and p21ref.mask_timestamp(res['w2']) != p21ref.mask_timestamp(res['w3']):
            o2.append(('unstable-after-deleting-a-referenced-instance/file', 'the third save differs from the second'))
        return o2
    mk = lambda: ','.join('%s%s' % (st[i], 'p' if part[i] else '') for i in sorted(st))
    fo = '' if not case.get('fail_before_save') else '/after-failed-%s' % case['fail_before_save']
    if case.get('fail_before_save') and res.get('dump_after_failed_op') is not None and res['dump_after_failed_op'] != res.get('dump_set'):
        return [('session-changed-by-failed-operation%s' % fo, 'a failed %s (no such file) changed the session' % case['fail_before_save'])]
    if res.get('w1') is None or (case.get('fail_before_save') and not res['w1'].strip()):
        return [('no-session-file%s' % fo, 'WriteWorkingFile produced nothing (%s)' % mk())]
    try:
        w1 = p21ref.parse_file(res['w1'], working=True)
    except p21ref.P21Error as e:
        return [('session-file-syntax/%s' % classify(case, None), 'working-session file not parsable: %s' % e)]
    # states written
    for i in w1.insts:
        if i.id in st and i.state != st[i.id]:
            out.append(('state-written/%s->%s%s' % (st[i.id], i.state, '/partial' if part[i.id] else ''), '#%d saved with state %s, was set to %s' % (i.id, i.state, st[i.id])))
    # population after load = what the exchange read held (STEPwrite text of every instance), minus deleted
    def parse_inst(txt):
        lx = p21ref.Lexer(txt.strip())
        lx.match(p21ref.RE_REF, 'id')
        lx.expect(b'=')
        if lx.peek() == b'(':
            lx.i += 1
            parts = []
            while not lx.accept(b')'):
                parts.append(p21ref.parse_record(lx))
            return sorted(parts)
        return [p21ref.parse_record(lx)]
    deleted = {i for i, s in st.items() if s == 'D'}
    d0 = {iid: t for iid, s, en, t in res.get('dump0', [])}
    d1 = {iid: (s, en) for iid, s, en, t in res.get('dump1', [])}
    t1 = {iid: t for iid, s, en, t in res.get('dump1', [])}
    want_ids = [iid for iid, s, en, t in res.get('dump0', []) if iid not in deleted]
    got_ids = [iid for iid, s, en, t in res.get('dump1', [])]
    if sorted(d0) != sorted(st):
        return [('base-population', 'exchange read of the base population lost instances (covered by C01/C03): %s' % sorted(d0))]
    if want_ids != got_ids:
        missing = [i for i in want_ids if i not in got_ids]
        extra = [i for i in got_ids if i not in want_ids]
        kinds = sorted({st.get(i, 'support') + ('p' if part.get(i) else '') for i in missing + extra})
        out.append(('population/%s%s/%s' % ('missing' if missing else '', 'extra' if extra else '', ','.join(kinds) or 'order'),
                    'after load: ids %s, expected %s (states %s)' % (got_ids, want_ids, mk())))
    for iid in got_ids:
        if iid not in d0:
            continue
        try:
            a = parse_inst(d0[iid])
            b = parse_inst(t1[iid])
        except p21ref.P21Error as e:
            out.append(('value/unparsable', '#%d: %s' % (iid, e)))
            continue
        if [k for k, _ in a] != [k for k, _ in b]:
            out.append(('value/type', '#%d type changed %s -> %s' % (iid, [k for k, _ in a], [k for k, _ in b])))
            continue
        for (kw, pa), (_, pb) in zip(a, b):
            for idx, (x, y) in enumerate(zip(pa, pb)):
                dd = p21ref.value_diff(x, y)
                if dd:
                    out.append(('value/%s%s/%s' % (st.get(iid), 'p' if part.get(iid) else '', dd), '#%d %s attr %d: %s -> %s (state %s)' % (iid, kw, idx, p21ref.render(x), p21ref.render(y), st.get(iid))))
    # states restored
    for iid, s in st.items():
        if s == 'D':
            continue
        if iid not in d1:
            continue
        got = d1[iid][0]
        if got != s:
            if s == 'C' and part[iid]:
                continue        # a partially filled instance saved as "complete": not judged (see assumptions)
            out.append(('state-restored/%s->%s%s' % (s, got, '/partial' if part[iid] else ''), '#%d state %s restored as %s' % (iid, s, got)))
    # second save byte-identical (deleted instances aside), third identical to second
    w2 = res.get('w2')
    if w2 is None:
        out.append(('no-second-save', 'second WriteWorkingFile produced nothing'))
    else:
        exp = strip_deleted(res['w1']) if deleted else res['w1']
        if p21ref.mask_timestamp(exp) != p21ref.mask_timestamp(w2):
            l1 = p21ref.mask_timestamp(exp).split(b'\n')
            l2 = p21ref.mask_timestamp(w2).split(b'\n')
            dl = next(((a, b) for a, b in zip(l1, l2) if a != b), (b'<length>', b''))
            out.append(('second-save-differs/%s' % classify(case, dl[0]), 'second save differs: %r -> %r' % (dl[0][:80], dl[1][:80])))
        w3 = res.get('w3')
        if w3 is None or p21ref.mask_timestamp(w3) != p21ref.mask_timestamp(w2):
            out.append(('third-save-differs', 'third save differs from second'))
    return out


def classify(case, line):
    if not line:
        return 'file'
    m = re.match(rb'\s*([CIND])?#(\d+)', line)
    if not m:
        return 'header' if b'FILE_' in line else 'other'
    iid = int(m.group(2))
    st = dict(case['states'])
    part = dict(case['partial'])
    return '%s%s' % (st.get(iid, 'support'), 'p' if part.get(iid) else '')


def gen(fam, tier):
    T = TEMPLATES[fam.name]
    nmax = 3 if tier == 'quick' else 4
    for n in range(1, nmax + 1):
        for combo in itertools.combinations(T, n):
            text, ids = population(fam, combo)
            text_c = population(fam, combo, comments=True)[0] if n <= 2 else None
            referenced = set()
            for ent, params, partial in combo:
                referenced |= {int(x) for x in re.findall(r'#(\d+)', params if isinstance(params, str) else ','.join(params))}
            allids = [1, 2] + ids
            partial = [(1, False), (2, False)] + [(i, c[2]) for i, c in zip(ids, combo)]
            # states for the n test instances: all 4^n; support instance #2 additionally takes every state when n == 1
            for assign in itertools.product(STATES, repeat=n):
                sup = [('C', 'C')] if n > 1 else [('C', s2) for s2 in STATES]
                for s1, s2 in sup:
                    states = [(1, s1), (2, s2)] + list(zip(ids, assign))
                    if any(s == 'D' and i in referenced for i, s in states):
                        # a deleted instance that is still referred to: what the references become is not judged, only that the session is stable
                        # from the first load on (load, save, load, save give the same)
                        if n <= 2:
                            yield {'family': fam.name, 'text': text, 'states': states, 'partial': partial, 'combo': [c[0] for c in combo], 'dangling': True}
                        continue
                    yield {'family': fam.name, 'text': text, 'states': states, 'partial': partial, 'combo': [c[0] for c in combo]}
                    if text_c is not None:
                        yield {'family': fam.name, 'text': text_c, 'states': states, 'partial': partial, 'combo': [c[0] for c in combo], 'comments': True}
                    if n == 1:
                        prior = with_header(population(fam, (T[0], T[1]))[0].replace("'verif'", "'another file'"), ('language', 'context'))
                        yield {'family': fam.name, 'text': text, 'states': states, 'partial': partial, 'combo': [c[0] for c in combo], 'prior_before_load': prior}
                        for op in ('append', 'appendws'):
                            yield {'family': fam.name, 'text': text, 'states': states, 'partial': partial, 'combo': [c[0] for c in combo], 'fail_before_save': op}
                        for hn in (('language',), ('context',), ('language', 'context'), ('population',), ('language', 'context', 'population')):
                            yield {'family': fam.name, 'text': with_header(text, hn), 'states': states, 'partial': partial, 'combo': [c[0] for c in combo], 'header': list(hn)}
    # a deleted instance that is still referred to from INSIDE an aggregate: first, middle, last element, with and without an attribute behind the aggregate
    # (what is left in its place is not judged; the session must be stable from the first load on)
    for ent, params in DANGLING_IN_AGGREGATE.get(fam.name, []):
        combo = ((ent, params, False),)
        text, ids = population(fam, combo)
        for s2, s10 in itertools.product(STATES, repeat=2):
            if s2 != 'D' and not (s10 == 'D' and ent.endswith('_REF_REF')):
                continue
            yield {'family': fam.name, 'text': text, 'states': [(1, 'C'), (2, s2), (ids[0], s10)], 'partial': [(1, False), (2, False), (ids[0], False)], 'combo': [ent], 'dangling': True}


DANGLING_IN_AGGREGATE = {
    'fk': [('E_LIST_REF', ['(#2,#1,#1)']), ('E_LIST_REF', ['(#1,#2,#1)']), ('E_LIST_REF', ['(#1,#1,#2)']), ('E_LIST_REF', ['(#2,#2)']),
           ('P_LIST_REF_STRI', ['(#1,#2)', "'behind'"]), ('P_LIST_REF_STRI', ['(#2,#1)', "'behind'"]), ('P_LIST_REF_REF', ['(#1,#2)', '#1']), ('P_LIST_REF_REF', ['(#2)', '#2']),
           ('E_SET_REF', ['(#1,#2)']), ('E_BAG_REF', ['(#2,#1,#2)']), ('E_LIST_SET_REF', ['((#1,#2),(#2,#1))']), ('P_REF_LIST_REF', ['#2', '(#1,#2,#1)'])],
}


def ws_text(schema, recs):
    """a working-session file: recs = [(state letter, id, keyword, params text)]"""
    t = smodel.file_text(schema, ['#%d=%s(%s);' % (i, kw, pr) for st, i, kw, pr in recs])
    t = t.replace('ISO-10303-21;', 'STEP_WORKING_SESSION;', 1).replace('END-ISO-10303-21;', 'END-STEP_WORKING_SESSION;')
    for st, i, kw, pr in recs:
        t = t.replace('\n#%d=' % i, '\n%s#%d=' % (st, i), 1)
    return t


def append_cases():
    """a second working-session file appended to a loaded session: session ids dense / sparse / with a far-away last id, file ids that would collide
    with them unless shifted beyond the LARGEST id of the session, every state for two of the appended instances"""
    A = {'dense': (1, 2), 'sparse': (10, 5000), 'far-last': (10, 20, 2999), 'below-2k': (7, 1999)}
    B = {'dense': (1, 2, 3), 'would-collide': (10, 3000, 3001), 'reversed': (5000, 1, 2), 'k-boundary': (990, 4990, 4991)}
    for an, aids in A.items():
        a_recs = [('C' if n % 2 == 0 else 'I', i, 'TGT', str(100 + n)) for n, i in enumerate(aids)]
        for bn, bids in B.items():
            for s1, s2 in itertools.product(STATES, repeat=2):
                if s2 == 'D':
                    continue        # the third instance refers to the second
                b_recs = [(s1, bids[0], 'TGT', '201'), (s2, bids[1], 'TGT', '202'), ('C', bids[2], 'E_REF', '#%d' % bids[1])]
                yield {'family': 'fk', 'append': True, 'session': an, 'file': bn, 'a': a_recs, 'b': b_recs, 'a_text': ws_text('fk', a_recs), 'b_text': ws_text('fk', b_recs)}


def append_case(case):
    d = p21run._G['d']
    d.recycle_if_big()
    pa, pb = os.path.join(d.dir, 'a.wsf'), os.path.join(d.dir, 'b.wsf')
    open(pa, 'w').write(case['a_text'])
    open(pb, 'w').write(case['b_text'])
    res = {}
    try:
        d.cmd('new')
        res['ra'] = drv.kv(d.cmd('readws ' + pa)[0])
        res['dump_a'] = drv.parse_dump(d.cmd('dump'))
        res['rb'] = drv.kv(d.cmd('appendws ' + pb)[0])
        res['dump_ab'] = drv.parse_dump(d.cmd('dump'))
    except drv.Crash as e:
        res.update(p21run.crash_result(e))
    return res


def judge_append(case, res):
    ctx = 'session-%s/file-%s' % (case['session'], case['file'])
    if 'crash' in res:
        return [('crash/%s/%s' % tuple(res['crash']), 'crash %s in %s' % tuple(res['crash']))]
    da = [(i, s, t) for i, s, en, t in res['dump_a']]
    dab = [(i, s, t) for i, s, en, t in res['dump_ab']]
    want_a = [(i, st) for st, i, kw, pr in case['a'] if st != 'D']
    if [(i, s) for i, s, t in da] != want_a:
        return [('append/session-not-loaded', 'the session file alone loads as %r' % ([(i, s) for i, s, t in da],))]
    out = []
    if any(x not in dab for x in da):
        out.append(('append/session-instance-changed/%s' % ctx, 'an instance of the session changed or vanished when a file was appended: before %r, after %r' % (da, dab)))
    new = [x for x in dab if x not in da]
    keep = [(st, i, kw, pr) for st, i, kw, pr in case['b'] if st != 'D']
    if len(new) != len(keep):
        out.append(('append/appended-count/%s' % ctx, '%d instances appended, the file holds %d that are not deleted: %r' % (len(new), len(keep), new)))
        return out
    offs = {n[0] - k[1] for n, k in zip(sorted(new), sorted(keep, key=lambda r: r[1]))}
    if len(offs) != 1:
        out.append(('append/ids-not-shifted-uniformly/%s' % ctx, 'appended ids %r for file ids %r' % ([n[0] for n in sorted(new)], sorted(k[1] for k in keep))))
        return out
    off = offs.pop()
    for n, k in zip(sorted(new), sorted(keep, key=lambda r: r[1])):
        want_txt = ('#%d=%s(%s);' % (k[1] + off, k[2], re.sub(r'#(\d+)', lambda m: '#%d' % (int(m.group(1)) + off), k[3]))).encode()
        if n[1] != k[0]:
            out.append(('append/state/%s->%s' % (k[0], n[1]), '#%d of the appended file has state %s in the file, %s in the session' % (k[1], k[0], n[1])))
        elif k[0] != 'I' and n[2].strip().replace(b' ', b'') != want_txt and not (k[2] == 'E_REF' and any(b[0] == 'D' for b in case['b'])):
            out.append(('append/value/%s' % ctx, '#%d of the appended file reads %r, expected %r' % (k[1], n[2].strip(), want_txt)))
    return out


def fams():
    return [smodel.family_K('fk', pairs='core'), smodel.family_I('fi')]


def replay(path):
    obj = json.load(open(path))
    case = obj['case']
    fam = {f.name: f for f in fams()}[case['family']]
    lib = build.schema_lib(fam.express(), 'plain')
    if case.get('append'):
        r = p21run.run_many(lib, [case], fn=append_case, procs=1)[0]
        print('session file:\n' + case['a_text'].split('DATA;')[1] + 'appended file:\n' + case['b_text'].split('DATA;')[1])
        print('session alone :', [(i, s, t) for i, s, e, t in r.get('dump_a', [])])
        print('after appendws:', [(i, s, t) for i, s, e, t in r.get('dump_ab', [])])
        v = judge_append(case, r)
        print('verdict:', v)
        return 1 if v else 0
    r = p21run.run_many(lib, [case], fn=session_case, procs=1)[0]
    print('input:\n' + case['text'].split('DATA;')[1])
    print('states:', case['states'])
    print('W1:\n' + (r.get('w1') or b'').decode('latin1').split('DATA;')[-1])
    print('after load:', [(i, s, e) for i, s, e, t in r.get('dump1', [])])
    print('W2:\n' + (r.get('w2') or b'').decode('latin1').split('DATA;')[-1])
    v = judge(case, r)
    print('verdict:', v)
    return 1 if v else 0


def main():
    args = common.parse_args(sys.argv[1:])
    if args.replay:
        sys.exit(replay(args.replay))
    chk = common.Check(PID, args.tier, deadline_s=args.deadline)
    chk.rule = ('E-hist: populations = all combinations of <= %d instance templates (complete and partially filled, simple and externally mapped, with '
                'references) x ALL 4^n assignments of the states C/I/N/D (D only for unreferenced instances) x the history read, set states, save, load, '
                'save, exchange-write, load, save - each with the loads into a fresh session and into the saving session itself; state = (population, assignment), transition = one history on the real STEPfile; oracle = dict model '
                'of the session (exchange round trip minus deleted, states, byte-identical re-save)') % (3 if args.tier == 'quick' else 4)
    chk.assumptions = ['a partially filled instance that was marked "complete" may come back as incomplete (not judged)',
                       '"saving again reproduces the file" is read as: second save == first save with the deleted instances removed, third save == second',
                       'the delete state is assigned only to instances no other instance refers to']
    for fam in fams():
        lib = build.schema_lib(fam.express(), 'plain')
        cases = list(gen(fam, args.tier))
        # every history also with the loads going into the SAME STEPfile/InstMgr that wrote the file (save/load cycles within one session)
        cases = cases + [dict(c, same=True) for c in cases]
        results = p21run.run_many(lib, cases, fn=session_case, chunksize=8)
        half = len(cases) // 2
        fresh_keys = [set(k for k, _ in judge(c, r)) for c, r in zip(cases[:half], results[:half])]
        for n, (c, r) in enumerate(zip(cases, results)):
            chk.count(states=1, transitions=1)
            v = judge(c, r)
            if c.get('same'):
                v = [(k if k in fresh_keys[n - half] else k + '/same-session', w + ('' if k in fresh_keys[n - half] else ' [only when loading into the session that saved]')) for k, w in v]
            chk.cls(''.join(s for _, s in c['states'][2:]) if len(c['states']) <= 4 else 'n=%d' % (len(c['states']) - 2))
            if not v:
                chk.outcome('ok')
                chk.sample({'templates': c['combo'], 'states': c['states']}, maxn=6)
            for kp, what in v:
                chk.outcome(kp.split('/')[0])
                chk.violation('%s/%s' % (PID, kp), what, dict(c))
        chk.bounds[fam.name] = {'histories': len(cases), 'max_instances': 3 if args.tier == 'quick' else 4}
        if fam.name == 'fk':
            ac = list(append_cases())
            for c, r in zip(ac, p21run.run_many(lib, ac, fn=append_case, chunksize=8)):
                chk.count(states=1, transitions=2)
                chk.cls('append-working-session')
                v = judge_append(c, r)
                if not v:
                    chk.outcome('ok')
                for kp, what in v:
                    chk.outcome(kp.split('/')[0])
                    chk.violation('%s/%s' % (PID, kp), what, dict(c))
            chk.bounds['append'] = {'histories': len(ac)}
    if chk.outcomes.get('ok', 0) == 0:
        chk.harness_error('vacuous: no history passed')
    sys.exit(chk.finish())


if __name__ == '__main__':
    main()
