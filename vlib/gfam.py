"""Grammar-directed family of EXPRESS schemas (valid by construction) and single-fault mutants of them.
Used by the front-end properties C04, C06, C12, C17, C18, C20 (and, with expref, C07)."""
import re, itertools, os, glob
from . import smodel, common

KS = r"""SCHEMA ks;
CONSTANT
  c_int : INTEGER := 42;
  c_real : REAL := 1.5E-3;
  c_str : STRING := 'it''s';
  c_agg : LIST OF INTEGER := [1, 2, 3];
END_CONSTANT;
TYPE color = ENUMERATION OF (red, green, blue); END_TYPE;
TYPE pos_int = INTEGER; WHERE wr1 : SELF > 0; END_TYPE;
TYPE name = STRING (20) FIXED; END_TYPE;
TYPE bits = BINARY (8); END_TYPE;
TYPE lst = LIST [1:?] OF UNIQUE pos_int; END_TYPE;
TYPE arr = ARRAY [1:3] OF OPTIONAL REAL; END_TYPE;
TYPE sel = SELECT (pos_int, name, e1); END_TYPE;
ENTITY e0 ABSTRACT SUPERTYPE OF (ONEOF (e1, e2) ANDOR e3);
  id : INTEGER;
  nm : OPTIONAL name;
 UNIQUE
  ur1 : id;
END_ENTITY;
ENTITY e1 SUBTYPE OF (e0);
  w : REAL;
  h : REAL;
  col : color;
 DERIVE
  area : REAL := w * h;
 WHERE
  wr1 : w > 0.0;
  wr2 : {0.0 < h <= 100.0};
END_ENTITY;
ENTITY e2 SUBTYPE OF (e0);
  parts : SET [0:?] OF e1;
  s : sel;
 INVERSE
  users : SET [0:?] OF e3 FOR uses;
END_ENTITY;
ENTITY e3 SUBTYPE OF (e0);
  uses : e2;
  b : BOOLEAN;
  l : LOGICAL;
  bin : bits;
END_ENTITY;
FUNCTION f1 (a : INTEGER; b : REAL) : REAL;
  LOCAL
    x : REAL := 0.0;
    i : INTEGER;
    agg : LIST OF REAL := [];
  END_LOCAL;
  x := a + b * 2.0 - (a / 3.0) ** 2;
  IF (a > 0) AND NOT (b < 0.0) OR (a = 1) XOR (a <> 2) THEN
    x := -x;
  ELSE
    x := +x;
  END_IF;
  CASE a OF
    1 : x := 1.0;
    2, 3 : x := 2.0;
    OTHERWISE : x := 0.0;
  END_CASE;
  REPEAT i := 1 TO 10 BY 2 WHILE x < 100.0 UNTIL x > 1000.0;
    x := x * 2.0;
    IF x > 50.0 THEN ESCAPE; END_IF;
    SKIP;
  END_REPEAT;
  BEGIN
    agg := agg + [x, 1.0 : 3];
    x := agg[1] + SIZEOF(agg) + a DIV 2 + a MOD 2;
  END;
  ALIAS z FOR agg;
    x := SIZEOF(z);
  END_ALIAS;
  p1(x);
  RETURN (NVL(x, 0.0) + ABS(b) + PI + CONST_E);
END_FUNCTION;
PROCEDURE p1 (VAR r : REAL);
  r := r + 1.0;
END_PROCEDURE;
RULE r1 FOR (e1, e3);
  LOCAL n : INTEGER; END_LOCAL;
  n := SIZEOF(QUERY(x <* e1 | x.w > 1.0));
 WHERE
  wr1 : n >= 0;
  wr2 : SIZEOF(e3) <= 10;
END_RULE;
END_SCHEMA;
"""

MULTI = r"""SCHEMA s1;
TYPE t1 = INTEGER; END_TYPE;
TYPE en1 = ENUMERATION OF (aa, bb); END_TYPE;
ENTITY a1; x : t1; END_ENTITY;
ENTITY a2 SUBTYPE OF (a1); y : en1; END_ENTITY;
FUNCTION fs1 (v : INTEGER) : INTEGER; RETURN (v + 1); END_FUNCTION;
END_SCHEMA;
SCHEMA s2;
USE FROM s1 (a1 AS b1, a2);
REFERENCE FROM s1 (t1, fs1);
ENTITY c SUBTYPE OF (b1);
  z : t1;
 DERIVE
  zz : INTEGER := fs1(z);
END_ENTITY;
END_SCHEMA;
"""

MINI = {
    'm_bound_expr': "SCHEMA m_bound_expr;\nCONSTANT\n  half_width : INTEGER := 2;\n  n : INTEGER := 3;\nEND_CONSTANT;\nTYPE row = ARRAY [-half_width : half_width] OF REAL; END_TYPE;\n"
                    "TYPE lst = LIST [n : n + 1] OF INTEGER; END_TYPE;\nENTITY e; a : ARRAY [-half_width : 2] OF REAL; b : LIST [1 : n * 2] OF INTEGER; c : SET [0 : -(-n)] OF STRING; d : row; f : lst;\nEND_ENTITY;\nEND_SCHEMA;\n",
    'm_simple': "SCHEMA m_simple;\nENTITY a; i : INTEGER; r : REAL; n : NUMBER; s : STRING; b : BINARY; bo : BOOLEAN; l : LOGICAL; END_ENTITY;\nEND_SCHEMA;\n",
    'm_enum': "SCHEMA m_enum;\nTYPE e = ENUMERATION OF (x1, x2, x3); END_TYPE;\nTYPE e2 = e; END_TYPE;\nENTITY a; v : e; w : OPTIONAL e2; END_ENTITY;\nEND_SCHEMA;\n",
    'm_select': "SCHEMA m_select;\nTYPE d1 = INTEGER; END_TYPE;\nTYPE d2 = STRING; END_TYPE;\nTYPE s1 = SELECT (d1, d2); END_TYPE;\nTYPE s2 = SELECT (s1, b); END_TYPE;\nTYPE s3 = s2; END_TYPE;\nENTITY b; q : d1; END_ENTITY;\nENTITY a; v : s1; w : s2; u : OPTIONAL s3; END_ENTITY;\nEND_SCHEMA;\n",
    'm_aggr': "SCHEMA m_aggr;\nTYPE la = LIST [0:?] OF INTEGER; END_TYPE;\nTYPE sa = SET [1:5] OF STRING; END_TYPE;\nTYPE ba = BAG OF REAL; END_TYPE;\nTYPE aa = ARRAY [-1:1] OF OPTIONAL UNIQUE INTEGER; END_TYPE;\nTYPE ll = LIST OF LIST OF REAL; END_TYPE;\nENTITY a; p : la; q : sa; r : ba; s : aa; t : ll; u : LIST [1:3] OF a; v : SET OF la; END_ENTITY;\nEND_SCHEMA;\n",
    'm_inherit': "SCHEMA m_inherit;\nENTITY r SUPERTYPE OF (ONEOF (s1, s2)); a : INTEGER; END_ENTITY;\nENTITY s1 SUBTYPE OF (r); b : REAL; END_ENTITY;\nENTITY s2 SUBTYPE OF (r); c : STRING; END_ENTITY;\nENTITY t1 SUBTYPE OF (s1); d : BOOLEAN; END_ENTITY;\nENTITY m SUBTYPE OF (t1, s2x); e : INTEGER; END_ENTITY;\nENTITY s2x; f : INTEGER; END_ENTITY;\nEND_SCHEMA;\n",
    'm_abstract': "SCHEMA m_abstract;\nENTITY ab ABSTRACT SUPERTYPE OF (l1 AND l2); a : INTEGER; END_ENTITY;\nENTITY l1 SUBTYPE OF (ab); b : REAL; END_ENTITY;\nENTITY l2 SUBTYPE OF (ab); c : REAL; END_ENTITY;\nENTITY ab2 ABSTRACT SUPERTYPE; END_ENTITY;\nENTITY l3 SUBTYPE OF (ab2); END_ENTITY;\nEND_SCHEMA;\n",
    'm_derive': "SCHEMA m_derive;\nENTITY a; w : REAL; h : REAL;\n DERIVE area : REAL := w * h;\nEND_ENTITY;\nENTITY b SUBTYPE OF (a); k : INTEGER;\n DERIVE SELF\\a.h : REAL := 2.0;\nEND_ENTITY;\nEND_SCHEMA;\n",
    'm_inverse': "SCHEMA m_inverse;\nENTITY owner; nm : STRING;\n INVERSE\n  items : SET [0:?] OF item FOR own;\n  one : item2 FOR own2;\nEND_ENTITY;\nENTITY item; own : owner; END_ENTITY;\nENTITY item2; own2 : owner; others : LIST OF owner; END_ENTITY;\nEND_SCHEMA;\n",
    'm_unique': "SCHEMA m_unique;\nENTITY a; i : INTEGER; s : STRING;\n UNIQUE\n  ur1 : i;\n  ur2 : i, s;\n WHERE\n  wr1 : i > 0;\n  wr2 : EXISTS (s);\nEND_ENTITY;\nEND_SCHEMA;\n",
    'm_func': "SCHEMA m_func;\nFUNCTION g (x : REAL; n : INTEGER) : REAL;\n  LOCAL r : REAL := 1.0; k : INTEGER; END_LOCAL;\n  REPEAT k := 1 TO n; r := r * x; END_REPEAT;\n  RETURN (r);\nEND_FUNCTION;\nFUNCTION h (l : LIST OF REAL) : INTEGER;\n  RETURN (SIZEOF (l));\nEND_FUNCTION;\nENTITY a; v : REAL;\n DERIVE c : REAL := g (v, 3); d : INTEGER := h ([v, v]);\nEND_ENTITY;\nEND_SCHEMA;\n",
    'm_rule': "SCHEMA m_rule;\nENTITY a; v : INTEGER; END_ENTITY;\nRULE at_most_ten FOR (a);\n WHERE\n  wr1 : SIZEOF (a) <= 10;\n  wr2 : SIZEOF (QUERY (t <* a | t.v < 0)) = 0;\nEND_RULE;\nEND_SCHEMA;\n",
    'm_const': "SCHEMA m_const;\nCONSTANT\n  k1 : INTEGER := 3;\n  k2 : REAL := 2.5;\n  k3 : STRING := 'abc';\n  k4 : BOOLEAN := TRUE;\nEND_CONSTANT;\nENTITY a; v : INTEGER;\n WHERE wr1 : v < k1;\nEND_ENTITY;\nEND_SCHEMA;\n",
    'm_remarks': "SCHEMA m_remarks; -- tail remark\n(* embedded (* nested *) remark *)\nENTITY a; -- attr follows\n  v : INTEGER; (* inline *)\nEND_ENTITY;\nEND_SCHEMA; -- end\n",
    'm_case': "SCHEMA M_Case;\nTYPE Col = ENUMERATION OF (Red, Green); END_TYPE;\nENTITY Ab; V : Col; W : OPTIONAL INTEGER; END_ENTITY;\nENTITY aB2 SUBTYPE OF (AB); END_ENTITY;\nEND_SCHEMA;\n",
    # string literals are data: what printf would make of them is nobody's business (short ones, one long enough to be split, in every place a
    # literal can stand)
    'm_percent': ("SCHEMA m_percent;\nCONSTANT\n  c1 : STRING := 'loaded %d of %d items';\n  c2 : STRING := '100%% of %s';\n  c3 : STRING := '%x %5.2f %c %p %n';\n"
                  "  c4 : STRING := 'a long literal with a conversion %d in it that does not fit on one line of the usual length, so that the printer has to split it %s %x somewhere';\nEND_CONSTANT;\n"
                  "TYPE tt = STRING;\n WHERE\n  wt : SELF <> 'type %d rule %s';\nEND_TYPE;\n"
                  "ENTITY tank; label : STRING; level : INTEGER;\n DERIVE\n  shown : STRING := 'level %d/%d';\n WHERE\n  wr1 : label <> 'value in %x';\n  wr2 : label <> '%d %%';\nEND_ENTITY;\n"
                  "FUNCTION ff (s : STRING) : STRING;\n  IF s = 'in %d function' THEN RETURN ('%s'); END_IF;\n  RETURN ('%d%d%d%d%d%d%d%d');\nEND_FUNCTION;\n"
                  "RULE rr FOR (tank);\n WHERE\n  wr1 : SIZEOF (QUERY (t <* tank | t.label = 'rule %d %s')) = 0;\nEND_RULE;\nEND_SCHEMA;\n"),
    # the same with numeric conversions only (a printf that is handed such a literal as its format survives and prints whatever the registers hold)
    'm_percent_num': ("SCHEMA m_percent_num;\nCONSTANT\n  c1 : STRING := 'loaded %d of %d items';\n  c2 : STRING := '%x %x %x %x %x %x';\n  c3 : STRING := '%ld %lu %lx %p %p';\nEND_CONSTANT;\n"
                      "TYPE tt = STRING;\n WHERE\n  wt : SELF <> 'type %d rule %x';\nEND_TYPE;\n"
                      "ENTITY tank; label : STRING; level : INTEGER;\n DERIVE\n  shown : STRING := 'level %d/%d/%d/%d';\n WHERE\n  wr1 : label <> 'value in %x %x %p';\n  wr2 : label <> '%d %%';\nEND_ENTITY;\n"
                      "FUNCTION ff (s : STRING) : STRING;\n  IF s = 'in %d function %p' THEN RETURN ('%x%x%x'); END_IF;\n  RETURN ('%d%d%d%d%d%d%d%d');\nEND_FUNCTION;\nEND_SCHEMA;\n"),
    'm_alias2': ("SCHEMA m_alias2;\nFUNCTION f (l : LIST OF REAL; m : LIST OF REAL) : REAL;\n  LOCAL\n    r : REAL := 0.0;\n  END_LOCAL;\n"
                 "  ALIAS a FOR l;\n    r := r + SIZEOF (a);\n  END_ALIAS;\n  ALIAS b FOR m;\n    r := r + SIZEOF (b);\n  END_ALIAS;\n"
                 "  ALIAS c FOR l;\n    ALIAS d FOR m;\n      r := r + SIZEOF (c) + SIZEOF (d);\n    END_ALIAS;\n  END_ALIAS;\n  RETURN (r);\nEND_FUNCTION;\nEND_SCHEMA;\n"),
    'm_alias_use': ("SCHEMA m_alias_use;\nENTITY pt; x : REAL; l : LIST OF REAL; END_ENTITY;\nENTITY seg; p : pt; END_ENTITY;\n"
                    "FUNCTION f (a : pt; s : seg) : REAL;\n  LOCAL\n    r : REAL := 0.0;\n  END_LOCAL;\n"
                    "  ALIAS b FOR a;\n    r := r + b.x;\n  END_ALIAS;\n  ALIAS c FOR a.l;\n    r := r + c[1];\n  END_ALIAS;\n"
                    "  ALIAS d FOR s.p;\n    r := r + d.x + d.l[1];\n  END_ALIAS;\n  RETURN (r);\nEND_FUNCTION;\nEND_SCHEMA;\n"),
    # string literals whose value has adjacent apostrophes (four and more consecutive quote characters in the source), short and long
    'm_quotes': ("SCHEMA m_quotes;\nCONSTANT\n  q2 : STRING := 'a\'\'\'\'b';\n  q3 : STRING := '\'\'\'\'\'\'';\n  q1 : STRING := '\'\'';\n  qe : STRING := 'it\'\'s \'\'\'\'quoted\'\'\'\' twice\'\'';\nEND_CONSTANT;\n"
                 "ENTITY e; s : STRING;\n DERIVE\n  d : STRING := 'x\'\'\'\'\'\'y';\n WHERE\n  w1 : s <> '" + "''" * 300 + "';\n  w2 : s <> '\'\'\'\'';\nEND_ENTITY;\nEND_SCHEMA;\n"),
    'm_widths': ('SCHEMA m_widths;\nTYPE coarse = REAL (4); END_TYPE;\nTYPE code = STRING (10) FIXED; END_TYPE;\nTYPE nm = STRING (30); END_TYPE;\nTYPE bits = BINARY (8); END_TYPE;\n'
                 'TYPE lr = LIST [1:?] OF REAL (6); END_TYPE;\nENTITY e; a : REAL (3); b : OPTIONAL STRING (5) FIXED; c : ARRAY [1:3] OF REAL (2); d : SET OF STRING (7); k : coarse;\n'
                 ' DERIVE\n  h : REAL (2) := a / 2.0;\nEND_ENTITY;\nFUNCTION f (p : REAL (5); q : STRING (2)) : REAL (8);\n  LOCAL\n    t : REAL (9) := 0.5;\n  END_LOCAL;\n  RETURN (t + p);\nEND_FUNCTION;\nEND_SCHEMA;\n'),
    'm_strlit': "SCHEMA m_strlit;\nCONSTANT\n  s1 : STRING := 'plain';\n  s2 : STRING := 'it''s';\n  s3 : STRING := \"00000041\";\n  s4 : STRING := '';\n  b1 : BINARY := %0101;\nEND_CONSTANT;\nEND_SCHEMA;\n",
}


# a second schema that interfaces items of every kind from the first, renamed: an entity (USE and REFERENCE), a type, a constant, a function, a procedure
MULTI_ITEMS = """SCHEMA mi_a;
CONSTANT c1 : REAL := 1.5; END_CONSTANT;
TYPE ta = REAL; END_TYPE;
TYPE sa = ENUMERATION OF (on_, off_); END_TYPE;
TYPE hue = sa; END_TYPE;
TYPE pick = SELECT (ea, ea2); END_TYPE;
TYPE pick2 = pick; END_TYPE;
FUNCTION f1 (x : REAL) : REAL; RETURN (x); END_FUNCTION;
PROCEDURE p1 (VAR x : REAL); x := x + 1.0; END_PROCEDURE;
ENTITY ea; v : REAL; END_ENTITY;
ENTITY ea2; v2 : ta; END_ENTITY;
END_SCHEMA;
SCHEMA mi_b;
USE FROM mi_a (ea2 AS eb2, sa AS sb, hue, pick2);
REFERENCE FROM mi_a (c1 AS k1, f1 AS g1, p1, ea AS eb, ta);
ENTITY e; w : REAL; r : eb; r2 : OPTIONAL eb2; s : sb; t : ta; h : hue; hs : LIST OF hue; p2 : OPTIONAL pick2;
 WHERE w1 : g1 (w) > k1;
END_ENTITY;
END_SCHEMA;
"""


def shipped():
    out = []
    for p in sorted(glob.glob(common.REPO + '/data/*/*.exp')) + sorted(glob.glob(common.REPO + '/test/unitary_schemas/*.exp')):
        if os.path.basename(p).startswith('fail_'):
            continue      # shipped on purpose as an invalid schema
        out.append((os.path.basename(os.path.dirname(p)) + '/' + os.path.basename(p), p))
    return out


def interface_family(tier='quick'):
    """(name, text, valid) - three schemas in one file: src declares, mid interfaces from src (completely / one item / one item renamed), top interfaces
    from mid (completely / by the exported name) and uses the item as an attribute type, as a supertype and (an enumeration item) in a WHERE rule;
    optionally src USEs top again (a cycle).  Every assignment of the roles to three schema names (the tools walk schemas in hash order).  Invalid
    twins: top asks mid for the name the item had BEFORE it was renamed."""
    import itertools
    out = []
    namesets = [('assembly_s', 'catalog_s', 'parts_s')] + ([('s1', 's2', 's3'), ('zeta', 'alpha', 'mid')] if tier == 'thorough' else [])
    k = 0
    for names in namesets:
        for src, mid, top in itertools.permutations(names):
            for mid_link in ('all', 'item', 'renamed'):
                exported = 'gadget' if mid_link == 'renamed' else 'widget'
                for top_link, top_kw in (('all', 'USE'), ('item', 'USE'), ('item', 'REFERENCE')):
                    for cyc in ((False, True) if (mid_link == 'all' and top_link == 'all') else (False,)):
                        k += 1
                        t = 'SCHEMA %s;\n' % src
                        if cyc:
                            t += 'USE FROM %s;\n' % top
                        t += 'TYPE shade = ENUMERATION OF (light, dark); END_TYPE;\nENTITY widget; size : INTEGER; tone : shade; END_ENTITY;\nEND_SCHEMA;\n'
                        t += 'SCHEMA %s;\n' % mid
                        t += {'all': 'USE FROM %s;\n' % src, 'item': 'USE FROM %s (widget, shade);\n' % src, 'renamed': 'USE FROM %s (widget AS gadget, shade);\n' % src}[mid_link]
                        t += 'ENTITY holder; h : %s; END_ENTITY;\nEND_SCHEMA;\n' % exported
                        t += 'SCHEMA %s;\n' % top
                        t += ('USE FROM %s;\n' % mid) if top_link == 'all' else ('%s FROM %s (%s, shade);\n' % (top_kw, mid, exported))
                        body = 'TYPE lvl = ENUMERATION OF (low, high); END_TYPE;\nENTITY top_e; w : %s; t : shade; g : lvl;\n WHERE\n  wr1 : (w.size > 0) AND (g <> high);\nEND_ENTITY;\n' % exported
                        if top_kw == 'USE':
                            body += 'ENTITY sub_e SUBTYPE OF (%s); extra : INTEGER; END_ENTITY;\n' % exported
                        out.append(('if_%d_%s_%s%s%s' % (k, mid_link, top_kw.lower(), top_link, '_cyc' if cyc else ''), t + body + 'END_SCHEMA;\n', True))
                        if mid_link == 'renamed' and top_link == 'item':
                            bad = t.replace('%s FROM %s (gadget, shade);' % (top_kw, mid), '%s FROM %s (widget, shade);' % (top_kw, mid)) + body.replace('gadget', 'widget') + 'END_SCHEMA;\n'
                            out.append(('if_%d_old_name_%s' % (k, top_kw.lower()), bad, False))
    return out


def valid_schemas(tier='quick', with_models=True):
    """[(name, text)] - single files; valid by construction"""
    out = [('ks', KS), ('multi', MULTI), ('multi_items', MULTI_ITEMS)]
    out += sorted(MINI.items())
    if with_models:
        fk = smodel.family_K('gk', pairs=[('inte', 'stri'), ('ref', 'list_int')], renamed=True,
                             only=None if tier == 'thorough' else ['inte', 'real', 'stri', 'bin', 'boo', 'logi', 'numb', 'enum', 'enum2', 'ref', 'seldef', 'seldef2', 'selent', 'selnest',
                                                                   'selagg', 'list_int', 'set_str', 'bag_real', 'array_enum', 'list_list_int', 'arrayopt_int', 'dlsti', 'ddint'])
        out.append(('gk', fk.express()))
        out.append(('gi', smodel.family_I('gi').express()))
    return out


# ------------------------------------------------------------------ EXPRESS tokenizer

TOK_RE = re.compile(r"""
    (?P<ws>\s+)
  | (?P<tail>--[^\n]*)
  | (?P<str>'(?:[^'\n]|'')*')
  | (?P<estr>"[0-9A-Fa-f]*")
  | (?P<bin>%[01]+)
  | (?P<real>\d+\.\d*(?:[eE][+-]?\d+)?)
  | (?P<int>\d+)
  | (?P<id>[A-Za-z][A-Za-z0-9_]*)
  | (?P<op>:=:|:<>:|:=|<=|>=|<>|<\*|\|\||\*\*|[-+*/=<>()\[\]{},;:.?\\|])
  | (?P<bad>.)
""", re.X | re.S)


def tokenize(text):
    """-> list of (kind, text, offset); embedded remarks (* *) (nested) are one token of kind 'remark'"""
    out = []
    i = 0
    n = len(text)
    while i < n:
        if text.startswith('(*', i):
            depth = 0
            j = i
            while j < n:
                if text.startswith('(*', j):
                    depth += 1
                    j += 2
                elif text.startswith('*)', j):
                    depth -= 1
                    j += 2
                    if depth == 0:
                        break
                else:
                    j += 1
            out.append(('remark', text[i:j], i))
            i = j
            continue
        m = TOK_RE.match(text, i)
        k = m.lastgroup
        out.append((k, m.group(0), i))
        i = m.end()
    return out


def code_tokens(text):
    return [t for t in tokenize(text) if t[0] not in ('ws', 'tail', 'remark')]


# ------------------------------------------------------------------ single-fault mutants

def _sub_nth(pattern, repl, text, n):
    """replace the n-th (0-based) match of pattern; returns None when there is none"""
    ms = list(re.finditer(pattern, text))
    if n >= len(ms):
        return None
    m = ms[n]
    r = m.expand(repl) if isinstance(repl, str) else repl(m)
    return text[:m.start()] + r + text[m.end():]


def semantic_mutants(name, text, max_pos=4):
    """yield (cls, detail, planted, mutated_text) - each contains exactly one fault of a listed class"""
    P = 'zq_planted_%d'
    seq = [0]

    def plant():
        seq[0] += 1
        return P % seq[0]

    # 1 undefined type in an attribute declaration (every attribute position up to max_pos)
    attr_re = r'(?m)^(\s*[a-z][a-z0-9_]*\s*:\s*(?:OPTIONAL\s+)?)(INTEGER|REAL|STRING|BOOLEAN|LOGICAL|NUMBER|BINARY|[a-z][a-z0-9_]*)(\s*;)'
    for k in range(max_pos):
        tok = plant()
        t = _sub_nth(attr_re, lambda m, tok=tok: m.group(1) + tok + m.group(3), text, k)
        if t is None:
            break
        yield ('undefined-type', 'attr#%d' % k, tok, t)
    # 1b undefined type inside an aggregate / select / defined type
    for k in range(2):
        tok = plant()
        t = _sub_nth(r'(OF\s+(?:OPTIONAL\s+)?(?:UNIQUE\s+)?)([a-z][a-z0-9_]*|INTEGER|REAL|STRING)(\s*;)', lambda m, tok=tok: m.group(1) + tok + m.group(3), text, k)
        if t:
            yield ('undefined-type', 'aggr-elem#%d' % k, tok, t)
    tok = plant()
    t = _sub_nth(r'(SELECT\s*\(\s*)([a-z][a-z0-9_]*)', lambda m, tok=tok: m.group(1) + tok, text, 0)
    if t:
        yield ('undefined-type', 'select-member', tok, t)
    # 2 undefined supertype
    for k in range(max_pos):
        tok = plant()
        t = _sub_nth(r'(SUBTYPE\s+OF\s*\(\s*)([a-z][a-z0-9_]*)', lambda m, tok=tok: m.group(1) + tok, text, k)
        if t is None:
            break
        yield ('undefined-supertype', 'entity#%d' % k, tok, t)
    # 3 undefined subtype in a supertype expression
    for k in range(2):
        tok = plant()
        t = _sub_nth(r'(SUPERTYPE\s+OF\s*\(\s*(?:ONEOF\s*\(\s*)?)([a-z][a-z0-9_]*)', lambda m, tok=tok: m.group(1) + tok, text, k)
        if t:
            yield ('undefined-subtype', 'entity#%d' % k, tok, t)
    # 4 undefined schema
    tok = plant()
    t = _sub_nth(r'(SCHEMA\s+[A-Za-z][A-Za-z0-9_]*\s*;)', lambda m, tok=tok: m.group(1) + '\nUSE FROM %s;' % tok, text, 0)
    yield ('undefined-schema', 'use', tok, t)
    tok = plant()
    t = _sub_nth(r'(SCHEMA\s+[A-Za-z][A-Za-z0-9_]*\s*;)', lambda m, tok=tok: m.group(1) + '\nREFERENCE FROM %s (x);' % tok, text, 0)
    yield ('undefined-schema', 'reference', tok, t)
    if 'USE FROM' in text:
        tok = plant()
        t = _sub_nth(r'(USE\s+FROM\s+[a-z0-9_]+\s*\(\s*)([a-z][a-z0-9_]*)', lambda m, tok=tok: m.group(1) + tok, text, 0)
        if t:
            yield ('undefined-interfaced-item', 'use-item', tok, t)
    # 5 undefined function
    for k in range(2):
        tok = plant()
        t = _sub_nth(r'(:=\s*)([^;\n]+)(;)', lambda m, tok=tok: m.group(1) + tok + ' (' + m.group(2).strip() + ')' + m.group(3), text, k)
        if t:
            yield ('undefined-function', 'init#%d' % k, tok, t)
    # 6 undefined attribute reference
    tok = plant()
    t = _sub_nth(r'(UNIQUE\s+[a-z0-9_]+\s*:\s*)([a-z][a-z0-9_]*)', lambda m, tok=tok: m.group(1) + tok, text, 0)
    if t:
        yield ('undefined-attribute', 'unique', tok, t)
    tok = plant()
    t = _sub_nth(r'(FOR\s+)([a-z][a-z0-9_]*)(\s*;)', lambda m, tok=tok: m.group(1) + tok + m.group(3), text, 0)
    if t:
        yield ('bad-inverse', 'missing-attribute', tok, t)
    t = _sub_nth(r'(INVERSE\s+[a-z0-9_]+\s*:\s*(?:SET[^;]*?OF\s+)?)([a-z][a-z0-9_]*)(\s+FOR)', lambda m: m.group(1) + 'zq_no_such_entity' + m.group(3), text, 0)
    if t:
        yield ('bad-inverse', 'missing-entity', 'zq_no_such_entity', t)
    # 7 duplicate declaration in one scope
    for k in range(max_pos):
        ms = list(re.finditer(r'(?ms)^ENTITY\s+([A-Za-z][A-Za-z0-9_]*).*?END_ENTITY;[^\n]*\n', text))
        if k >= len(ms):
            break
        m = ms[k]
        yield ('duplicate-declaration', 'entity#%d' % k, m.group(1), text[:m.end()] + 'ENTITY %s; END_ENTITY;\n' % m.group(1) + text[m.end():])
    for k in range(2):
        ms = list(re.finditer(r'(?ms)^TYPE\s+([A-Za-z][A-Za-z0-9_]*)\s*=.*?END_TYPE;[^\n]*\n', text))
        if k >= len(ms):
            break
        m = ms[k]
        yield ('duplicate-declaration', 'type#%d' % k, m.group(1), text[:m.end()] + 'TYPE %s = INTEGER; END_TYPE;\n' % m.group(1) + text[m.end():])
    ms = list(re.finditer(r'(?m)^(\s*)([a-z][a-z0-9_]*)(\s*:\s*(?:OPTIONAL\s+)?(?:INTEGER|REAL|STRING)\s*;)', text))
    if ms:
        m = ms[0]
        yield ('duplicate-declaration', 'attribute', m.group(2), text[:m.end()] + '\n' + m.group(1) + m.group(2) + ' : INTEGER;' + text[m.end():])
    # 8 subtype cycles of length 1..3, 9 select cycles, appended as fresh declarations before END_SCHEMA (last schema)
    endm = list(re.finditer(r'END_SCHEMA\s*;', text))[-1]
    ins = lambda decl: text[:endm.start()] + decl + text[endm.start():]
    yield ('subtype-cycle', 'len1', 'zq_cyc1', ins('ENTITY zq_cyc1 SUBTYPE OF (zq_cyc1); END_ENTITY;\n'))
    yield ('subtype-cycle', 'len2', 'zq_cyc1', ins('ENTITY zq_cyc1 SUBTYPE OF (zq_cyc2); END_ENTITY;\nENTITY zq_cyc2 SUBTYPE OF (zq_cyc1); END_ENTITY;\n'))
    yield ('subtype-cycle', 'len3', 'zq_cyc1', ins('ENTITY zq_cyc1 SUBTYPE OF (zq_cyc2); END_ENTITY;\nENTITY zq_cyc2 SUBTYPE OF (zq_cyc3); END_ENTITY;\nENTITY zq_cyc3 SUBTYPE OF (zq_cyc1); END_ENTITY;\n'))
    yield ('select-cycle', 'len1', 'zq_sel1', ins('TYPE zq_sel1 = SELECT (zq_sel1); END_TYPE;\n'))
    yield ('select-cycle', 'len2', 'zq_sel1', ins('TYPE zq_sel1 = SELECT (zq_sel2); END_TYPE;\nTYPE zq_sel2 = SELECT (zq_sel1); END_TYPE;\n'))
    yield ('select-cycle', 'len3', 'zq_sel1', ins('TYPE zq_sel1 = SELECT (zq_sel2); END_TYPE;\nTYPE zq_sel2 = SELECT (zq_sel3); END_TYPE;\nTYPE zq_sel3 = SELECT (zq_sel1); END_TYPE;\n'))
    # 10 subtype not listing its supertype
    yield ('subtype-missing-supertype', 'oneof', 'zq_sub', ins('ENTITY zq_sup SUPERTYPE OF (ONEOF (zq_sub, zq_sub2)); END_ENTITY;\nENTITY zq_sub; END_ENTITY;\nENTITY zq_sub2 SUBTYPE OF (zq_sup); END_ENTITY;\n'))
    # 11 inherited attribute re-declared
    yield ('inherited-attribute-redeclared', 'same-name', 'zq_attr', ins('ENTITY zq_p; zq_attr : INTEGER; END_ENTITY;\nENTITY zq_c SUBTYPE OF (zq_p); zq_attr : REAL; END_ENTITY;\n'))
    # 11b ... at every distance and through every path: the clashing attribute is declared 1-3 levels up, by the first or by a later supertype, or on
    # both arms of a diamond's top
    chain = lambda names: ''.join('ENTITY %s%s; %s END_ENTITY;\n' % (n, (' SUBTYPE OF (%s)' % ', '.join(sup)) if sup else '', body) for n, sup, body in names)
    for dist in (1, 2, 3):
        lv = [('zq_l0', [], 'zq_attr : INTEGER;')] + [('zq_l%d' % k, ['zq_l%d' % (k - 1)], 'f%d : INTEGER;' % k) for k in range(1, dist)]
        lv.append(('zq_bottom', ['zq_l%d' % (dist - 1)], 'zq_attr : REAL;'))
        yield ('inherited-attribute-redeclared', 'chain-distance-%d' % dist, 'zq_attr', ins(chain(lv)))
    yield ('inherited-attribute-redeclared', 'via-second-supertype', 'zq_attr',
           ins(chain([('zq_a', [], 'fa : INTEGER;'), ('zq_b0', [], 'zq_attr : INTEGER;'), ('zq_b', ['zq_b0'], 'fb : INTEGER;'), ('zq_bottom', ['zq_a', 'zq_b'], 'zq_attr : REAL;')])))
    yield ('inherited-attribute-redeclared', 'diamond-top', 'zq_attr',
           ins(chain([('zq_t', [], 'zq_attr : INTEGER;'), ('zq_a', ['zq_t'], 'fa : INTEGER;'), ('zq_b', ['zq_t'], 'fb : INTEGER;'), ('zq_bottom', ['zq_a', 'zq_b'], 'zq_attr : REAL;')])))
    # 9b select cycles whose members include entities, with an attribute reference through a value of the cyclic type
    for n in (1, 2, 3):
        for order in ('select-first', 'entity-first'):
            for ref in range(1, n + 1):
                mem = (lambda k: 'zq_sc%d, zq_se%d' % ((k % n) + 1, k)) if order == 'select-first' else (lambda k: 'zq_se%d, zq_sc%d' % (k, (k % n) + 1))
                decl = ''.join('ENTITY zq_se%d; zq_w%d : INTEGER; END_ENTITY;\n' % (k, k) for k in range(1, n + 1))
                decl += ''.join('TYPE zq_sc%d = SELECT (%s); END_TYPE;\n' % (k, mem(k)) for k in range(1, n + 1))
                decl += 'ENTITY zq_user; zq_s : zq_sc1;\n DERIVE\n  zq_d : INTEGER := zq_s.zq_w%d;\nEND_ENTITY;\n' % ref
                yield ('select-cycle', 'with-entity-members-len%d-%s-dot%d' % (n, order, ref), 'zq_sc1', ins(decl))
    # 12 bad INVERSE
    yield ('bad-inverse', 'names-missing-attribute', 'zq_nosuch', ins('ENTITY zq_o;\n INVERSE\n  back : SET [0:?] OF zq_i FOR zq_nosuch;\nEND_ENTITY;\nENTITY zq_i; own : zq_o; END_ENTITY;\n'))
    yield ('bad-inverse', 'names-non-entity', 'zq_ty', ins('TYPE zq_ty = INTEGER; END_TYPE;\nENTITY zq_o;\n INVERSE\n  back : SET [0:?] OF zq_ty FOR own;\nEND_ENTITY;\n'))


def reference_mutants(name, text, limit=None):
    """yield (cls, detail, planted, mutated_text): an undefined name in place of a bare reference to an attribute, local variable, parameter
    or constant, at EVERY such position inside an expression (initialisers, DERIVE, WHERE, statements).  Only names that the schema declares with
    'name :' are replaced, only where they are not qualified ( . or \\ before), not called and not being declared - so the mutant always holds
    an unresolvable reference."""
    toks = code_tokens(text)
    low = [(k, t.lower() if k == 'id' else t, off) for k, t, off in toks]
    declared = set()
    for i, (k, t, off) in enumerate(low):
        if k == 'id' and i + 1 < len(low) and low[i + 1][1] in (':', ','):
            # walk an identifier list  a , b , c :
            j = i
            ok = False
            while j + 1 < len(low) and low[j][0] == 'id':
                if low[j + 1][1] == ':':
                    ok = True
                    break
                if low[j + 1][1] != ',':
                    break
                j += 2
            if ok:
                declared.add(t)
    declared -= {'self', 'otherwise'}
    # expression regions: from ':=' / WHERE label ':' / RETURN / IF / WHILE / UNTIL / CASE ... to the closing ';' | THEN | OF
    n = 0
    region = False
    in_where = False
    for i, (k, t, off) in enumerate(low):
        if k == 'id' and t in ('where',):
            in_where = True
        if k == 'id' and t in ('end_entity', 'end_type', 'end_rule'):
            in_where = False
        if t == ':=' or (k == 'id' and t in ('return', 'if', 'while', 'until', 'case')) or (in_where and t == ':' and i >= 1 and low[i - 1][0] == 'id'):
            region = True
            continue
        if t == ';' or (k == 'id' and t in ('then', 'of')):
            region = False
            continue
        if not region or k != 'id' or t not in declared:
            continue
        prev = low[i - 1][1] if i else ''
        nxt = low[i + 1][1] if i + 1 < len(low) else ''
        if prev in ('.', '\\') or nxt in ('(', ':', '<*'):
            continue
        planted = 'zq_undef_%d' % n
        n += 1
        ctx = '%s_%s' % (prev if prev in ('=', '<>', '<', '>', '<=', '>=', ':=:', ':<>:', 'in', 'like', '+', '-', '*', '/', '**', 'and', 'or', 'xor', 'not', ':=', '(', '[', ',', '|', 'div', 'mod', '||') else 'x',
                         nxt if nxt in ('=', '<>', '<', '>', '<=', '>=', ':=:', ':<>:', 'in', 'like', '+', '-', '*', '/', '**', 'and', 'or', 'xor', ')', ']', ',', ';', '[', '.', 'div', 'mod', '||', 'then') else 'x')
        yield ('undefined-attribute', 'ref:%s' % ctx, planted, text[:off] + planted + text[off + len(toks[i][1]):])
        if limit and n >= limit:
            return


MUST_REJECT_DELETE = {'SCHEMA', 'END_SCHEMA', 'ENTITY', 'END_ENTITY', 'TYPE', 'END_TYPE', 'FUNCTION', 'END_FUNCTION', 'PROCEDURE', 'END_PROCEDURE',
                      'RULE', 'END_RULE', 'END_IF', 'END_CASE', 'END_REPEAT', 'END_LOCAL', 'END_CONSTANT', 'THEN', '(', ')', '[', ']', ':=', 'OF', 'FOR'}


def syntax_mutants(name, text, step=1):
    """yield (cls, detail, must_reject, mutated_text): one token deleted / duplicated at every token position"""
    toks = code_tokens(text)
    for k in range(0, len(toks), step):
        kind, t, off = toks[k]
        yield ('syntax-delete', t.upper() if kind == 'id' and t.upper() in MUST_REJECT_DELETE else kind, (t.upper() in MUST_REJECT_DELETE) or t in MUST_REJECT_DELETE,
               text[:off] + text[off + len(t):])
        yield ('syntax-duplicate', t.upper() if kind == 'id' and t.upper() in MUST_REJECT_DELETE else kind,
               (kind in ('id', 'int', 'real', 'str') or t in ('(', ')', '[', ']', ':=', ':', '=')) and not (t in ('-', '+') or t.upper() == 'NOT'),
               text[:off] + t + ' ' + text[off:])

def diagnostic_catalogue():
    """one small schema per parametrised diagnostic of the front end's table that the other families do not raise: the planted name carries a
    zq_ prefix and must be the text the diagnostic quotes; (case class, expected table entries, planted, declarations)"""
    E = lambda body: 'SCHEMA zq_cat;\n' + body + '\nEND_SCHEMA;\n'
    base = 'TYPE col = ENUMERATION OF (red, green); END_TYPE;\nENTITY sup; a : REAL; END_ENTITY;\n'
    C = [
        ('attribute-on-aggregate', ['ATTRIBUTE_REF_ON_AGGREGATE'], 'zq_x', base + 'ENTITY e; l : LIST OF sup; DERIVE d : REAL := l.zq_x; END_ENTITY;'),
        ('attribute-on-non-entity', ['ATTRIBUTE_REF_FROM_NON_ENTITY'], 'zq_x', base + 'ENTITY e; w : REAL; DERIVE d : REAL := w.zq_x; END_ENTITY;'),
        ('enum-no-such-item', ['ENUM_NO_SUCH_ITEM'], 'zq_item', base + 'ENTITY e; c : col; WHERE w1 : c <> col.zq_item; END_ENTITY;'),
        ('group-no-such-entity', ['GROUP_REF_NO_SUCH_ENTITY'], 'zq_ent', base + 'ENTITY e SUBTYPE OF (sup); WHERE w1 : SELF\\zq_ent.a > 0.0; END_ENTITY;'),
        ('group-of-non-entity', ['GROUP_REF_UNEXPECTED_TYPE'], 'zq_w', base + 'ENTITY e; zq_w : LIST OF REAL; h : REAL; DERIVE d : REAL := zq_w\\h; END_ENTITY;'),
        ('group-of-non-entity', ['GROUP_REF_UNEXPECTED_TYPE'], 'zq_w', base + 'ENTITY e; zq_w : REAL; h : REAL; DERIVE d : REAL := zq_w\\h; END_ENTITY;'),
        ('group-of-non-entity', ['GROUP_REF_UNEXPECTED_TYPE'], 'zq_w', base + 'ENTITY e; zq_w : col; WHERE w1 : zq_w\\sup.a > 0.0; END_ENTITY;'),
        ('unlabelled-generic', ['UNLABELLED_PARAM_TYPE'], 'zq_f', base + 'FUNCTION zq_f (p : GENERIC) : GENERIC; RETURN (p); END_FUNCTION;'),
        ('supertype-not-entity', ['SUPERTYPE_RESOLVE'], 'zq_t', base + 'TYPE zq_t = REAL; END_TYPE;\nENTITY e SUBTYPE OF (zq_t); END_ENTITY;'),
        ('subtype-not-entity', ['SUBTYPE_RESOLVE'], 'zq_t', base + 'TYPE zq_t = REAL; END_TYPE;\nENTITY e SUPERTYPE OF (ONEOF (zq_t, f)); END_ENTITY;\nENTITY f SUBTYPE OF (e); END_ENTITY;'),
        ('not-a-type', ['NOT_A_TYPE'], 'zq_f', base + 'FUNCTION zq_f (p : REAL) : REAL; RETURN (p); END_FUNCTION;\nENTITY e; x : zq_f; END_ENTITY;'),
        ('call-of-non-function', ['FUNCALL_NOT_A_FUNCTION'], 'zq_t', base + 'TYPE zq_t = REAL; END_TYPE;\nENTITY e; x : REAL; WHERE w1 : zq_t (x) > 0.0; END_ENTITY;'),
        ('call-of-non-function', ['FUNCALL_NOT_A_FUNCTION'], 'zq_c', base + 'CONSTANT zq_c : REAL := 1.0; END_CONSTANT;\nENTITY e; x : REAL; WHERE w1 : zq_c (x) > 0.0; END_ENTITY;'),
        ('function-as-procedure', ['EXPECTED_PROC'], 'zq_f', base + 'FUNCTION zq_f (p : REAL) : REAL; RETURN (p); END_FUNCTION;\nPROCEDURE q; zq_f (1.0); END_PROCEDURE;'),
        ('no-such-procedure', ['NO_SUCH_PROCEDURE'], 'zq_p', base + 'PROCEDURE q; zq_p (1.0); END_PROCEDURE;'),
        ('entity-as-underlying-type', ['TYPE_IS_ENTITY'], 'zq_e', base + 'ENTITY zq_e; END_ENTITY;\nTYPE t = zq_e; END_TYPE;'),
        ('redeclared-no-such-attribute', ['REDECL_NO_SUCH_ATTR'], 'zq_a', base + 'ENTITY e SUBTYPE OF (sup); SELF\\sup.zq_a : REAL; END_ENTITY;'),
        ('redeclared-no-such-supertype', ['REDECL_NO_SUCH_SUPERTYPE'], 'zq_s', base + 'ENTITY e SUBTYPE OF (sup); SELF\\zq_s.a : REAL; END_ENTITY;'),
        ('domain-rule-without-self', ['MISSING_SELF'], 'zq_w', base + 'TYPE t = REAL; WHERE zq_w : 1 > 0; END_TYPE;'),
        ('undefined-tag', ['UNDEFINED_TAG'], 'zq_tag', base + 'FUNCTION f (p : AGGREGATE OF REAL) : AGGREGATE:zq_tag OF REAL; RETURN (p); END_FUNCTION;'),
        ('empty-select', ['SELECT_EMPTY'], 'zq_s', base + 'TYPE zq_s = SELECT (); END_TYPE;'),
        ('circular-definition', ['CIRCULAR_REFERENCE'], 'zq_t', base + 'TYPE zq_t = LIST OF zq_t; END_TYPE;'),
        ('circular-definition', ['CIRCULAR_REFERENCE'], 'zq_t', base + 'TYPE zq_t = zq_u; END_TYPE;\nTYPE zq_u = zq_t; END_TYPE;'),
        # the cycle runs through two or three levels of (unnamed) aggregates: the type that is named is still the declared one
        ('circular-definition', ['CIRCULAR_REFERENCE'], 'zq_t', base + 'TYPE zq_t = LIST OF LIST OF zq_t; END_TYPE;'),
        ('circular-definition', ['CIRCULAR_REFERENCE'], 'zq_t', base + 'TYPE zq_t = SET OF ARRAY [1:2] OF zq_t; END_TYPE;'),
        ('circular-definition', ['CIRCULAR_REFERENCE'], 'zq_t', base + 'TYPE zq_t = LIST OF BAG OF LIST OF zq_t; END_TYPE;'),
        ('circular-definition', ['CIRCULAR_REFERENCE'], 'zq_t', base + 'TYPE zq_t = LIST OF LIST OF zq_u; END_TYPE;\nTYPE zq_u = zq_t; END_TYPE;'),
        ('include-missing', ['INCLUDE_FILE'], 'zq_inc', base + "INCLUDE 'zq_inc.exp';"),
        ('inverse-of-non-entity', ['INVERSE_BAD_ENTITY'], 'zq_a', base + 'TYPE rr = REAL; END_TYPE;\nENTITY e; INVERSE i : SET OF rr FOR zq_a; END_ENTITY;'),
        ('always-true-branch', ['FN_SKIP_BRANCH'], 'true', base + 'FUNCTION f (p : REAL) : REAL; IF TRUE THEN RETURN (p); ELSE RETURN (0.0); END_IF; END_FUNCTION;'),
        ('case-label', ['CASE_SKIP_LABEL'], 'zq_l', base + 'FUNCTION f (p : INTEGER) : REAL; CASE p OF zq_l : RETURN (1.0); OTHERWISE : RETURN (0.0); END_CASE; END_FUNCTION;'),
    ]
    # identifiers may be long: the quoted name is the whole name, whatever its length (around the sizes of the message buffers)
    for L in (64, 128, 171, 199, 200, 201, 213, 256):
        nm = 'zq_' + ('long_name_' * 30)[:L - 3]
        C.append(('no-such-procedure', ['NO_SUCH_PROCEDURE'], nm, base + 'PROCEDURE q; %s (1.0); END_PROCEDURE;' % nm))
        C.append(('redeclared-no-such-attribute', ['REDECL_NO_SUCH_ATTR'], nm, base + 'ENTITY e SUBTYPE OF (sup); SELF\\sup.%s : REAL; END_ENTITY;' % nm))
        C.append(('enum-no-such-item', ['ENUM_NO_SUCH_ITEM'], nm, base + 'ENTITY e; c : col; WHERE w1 : c <> col.%s; END_ENTITY;' % nm))
    for cls, codes, planted, body in C:
        c = {'kind': 'catalogue', 'cls': cls, 'expect': codes, 'detail': codes[0], 'planted': planted, 'name': 'cat', 'text': E(body)}
        if 'zq_u' in body:
            c['planted_alts'] = ['zq_t', 'zq_u']      # a cycle of two: either member names it
        yield c
    # an interfaced item that does not exist, asked for under another name: the diagnostic names the item that was looked for, in the schema it was
    # looked for in - not the local alias
    for kw in ('USE', 'REFERENCE'):
        yield {'kind': 'catalogue', 'cls': 'interfaced-item-missing-renamed', 'expect': ['REF_NONEXISTENT'], 'detail': 'REF_NONEXISTENT/' + kw, 'planted': 'zq_washer', 'name': 'cat',
               'text': 'SCHEMA supplier;\nENTITY bolt; d : REAL; END_ENTITY;\nEND_SCHEMA;\nSCHEMA zq_cat;\n%s FROM supplier (zq_washer AS local_spacer, bolt AS local_pin);\nENTITY kit; p : local_pin; END_ENTITY;\nEND_SCHEMA;\n' % kw}
    # the same schema name declared in two files found through EXPRESS_PATH: the redeclaration is reported in the second file and points to the first
    for first, second in (('zq_lib_b', 'zq_lib_c'), ('zq_lib_c', 'zq_lib_b')):
        lib = lambda n: 'SCHEMA %s;\nENTITY thing_%s; x : REAL; END_ENTITY;\nEND_SCHEMA;\n\nSCHEMA zq_common;\nENTITY shared_%s; y : REAL; END_ENTITY;\nEND_SCHEMA;\n' % (n, n, n)
        yield {'kind': 'catalogue', 'cls': 'schema-redeclared-in-another-file', 'expect': ['DUPLICATE_DECL_DIFF_FILE'], 'detail': 'DUPLICATE_DECL_DIFF_FILE/%s-first' % first, 'planted': 'zq_common', 'name': 'cat',
               'text': 'SCHEMA zq_cat;\nUSE FROM %s (thing_%s);\nUSE FROM %s (thing_%s);\nENTITY top; a : thing_%s; b : thing_%s; END_ENTITY;\nEND_SCHEMA;\n' % (first, first, second, second, first, second),
               'extra_files': {'zq_lib_b.exp': lib('zq_lib_b'), 'zq_lib_c.exp': lib('zq_lib_c')}}
    # a schema looked up through EXPRESS_PATH whose file holds another schema
    yield {'kind': 'catalogue', 'cls': 'schema-not-in-own-file', 'expect': ['SCHEMA_NOT_IN_OWN_SCHEMA_FILE'], 'detail': 'SCHEMA_NOT_IN_OWN_SCHEMA_FILE', 'planted': 'zq_ext', 'name': 'cat',
           'text': 'SCHEMA zq_cat;\nREFERENCE FROM zq_ext (thing);\nEND_SCHEMA;\n', 'extra_files': {'zq_ext.exp': 'SCHEMA zq_other;\nENTITY thing; END_ENTITY;\nEND_SCHEMA;\n'}}


def visibility_family():
    """(name, text, valid, planted) - which attribute names an entity may mention.  Hierarchy root <- mid <- leaf, sib SUBTYPE OF root, an unrelated
    entity other; every (context entity, attribute of any of the five, kind of mention) - the mention is legal exactly when the attribute is declared in
    the context entity or one of its supertypes.  A name that exists only in a subtype, a sibling or an unrelated entity is as undefined as one that
    exists nowhere."""
    ents = ['root', 'mid', 'leaf', 'sib', 'other']
    sup = {'root': [], 'mid': ['root'], 'leaf': ['mid', 'root'], 'sib': ['root'], 'other': []}
    decl = {'root': 'ENTITY root SUPERTYPE OF (ONEOF (mid, sib));', 'mid': 'ENTITY mid SUPERTYPE OF (leaf) SUBTYPE OF (root);', 'leaf': 'ENTITY leaf SUBTYPE OF (mid);',
            'sib': 'ENTITY sib SUBTYPE OF (root);', 'other': 'ENTITY other;'}
    out = []
    for ctx in ents:
        for own in ents:
            for kind in ('where-bare', 'where-self', 'derive', 'unique', 'inverse', 'group'):
                ok = own == ctx or own in sup[ctx]
                if kind == 'group' and (own == ctx or not ok):
                    continue                                # SELF\\own.attr needs own to be a supertype; other cases are the undefined-supertype class
                if not ok and kind in ('where-self', 'unique') and own != 'other' and ctx != 'other':
                    # a qualified mention (SELF.x, a UNIQUE rule) of an attribute found elsewhere in the same hierarchy is the front end's
                    # "implicit downcast" (warning PW014), a deliberate leniency: not judged
                    ok = None
                a_num, a_ref = own[0] + '_num', own[0] + '_ref'
                body = 'ENTITY keeper; kname : STRING;'
                if kind == 'inverse':
                    body += '\n INVERSE\n  things : SET [0:?] OF %s FOR %s;' % (ctx, a_ref)
                body += '\nEND_ENTITY;\n'
                for e in ents:
                    body += decl[e] + '\n  %s_num : REAL;\n  %s_ref : keeper;\n' % (e[0], e[0])
                    if e == ctx:
                        if kind == 'where-bare':
                            body += ' WHERE\n  wr1 : %s > 0.0;\n' % a_num
                        elif kind == 'where-self':
                            body += ' WHERE\n  wr1 : SELF.%s > 0.0;\n' % a_num
                        elif kind == 'derive':
                            body += ' DERIVE\n  dd : REAL := %s * 2.0;\n' % a_num
                        elif kind == 'unique':
                            body += ' UNIQUE\n  ur1 : %s;\n' % a_num
                        elif kind == 'group':
                            body += ' WHERE\n  wr1 : SELF\\%s.%s > 0.0;\n' % (own, a_num)
                    body += 'END_ENTITY;\n'
                # the order of DERIVE / UNIQUE / WHERE inside an entity is fixed by the grammar; only one clause is present here
                out.append(('vis_%s_in_%s_%s' % (own, ctx, kind), 'SCHEMA vis;\n' + body + 'END_SCHEMA;\n', ok, a_ref if kind == 'inverse' else a_num))
    return out


def interface_paths():
    """(name, text, valid) - one item reaching a schema along two interface paths (legal: it is the same item) and two different items interfaced under
    one name (a duplicate declaration), for USE and REFERENCE"""
    out = []
    for kw in ('USE', 'REFERENCE'):
        base = 'SCHEMA base_s;\nENTITY point; x : REAL; END_ENTITY;\nENTITY pixel; i : INTEGER; END_ENTITY;\nEND_SCHEMA;\n'
        mid = 'SCHEMA mid_s;\nUSE FROM base_s (point);\nENTITY segment; a : point; b : point; END_ENTITY;\nEND_SCHEMA;\n'
        out.append(('paths_%s_diamond' % kw.lower(), base + mid + 'SCHEMA top_s;\n%s FROM base_s (point);\n%s FROM mid_s (point, segment);\nENTITY poly; first : point; parts : LIST [1:?] OF segment; END_ENTITY;\nEND_SCHEMA;\n' % (kw, kw), True))
        out.append(('paths_%s_diamond_reversed' % kw.lower(), base + mid + 'SCHEMA top_s;\n%s FROM mid_s (point, segment);\n%s FROM base_s (point);\nENTITY poly; first : point; parts : LIST [1:?] OF segment; END_ENTITY;\nEND_SCHEMA;\n' % (kw, kw), True))
        out.append(('paths_%s_twice_same' % kw.lower(), base + 'SCHEMA top_s;\n%s FROM base_s (point);\n%s FROM base_s (point);\nENTITY holder; it : point; END_ENTITY;\nEND_SCHEMA;\n' % (kw, kw), True))
        out.append(('paths_%s_same_alias_twice' % kw.lower(), base + 'SCHEMA top_s;\n%s FROM base_s (point AS p);\n%s FROM base_s (point AS p);\nENTITY holder; it : p; END_ENTITY;\nEND_SCHEMA;\n' % (kw, kw), True))
        # every item of another schema interfaced at once (no item list): what the schema then mentions resolves through that clause alone
        sup = 'SCHEMA support;\nCONSTANT unit_len : REAL := 1.0; END_CONSTANT;\nTYPE len = REAL; END_TYPE;\nFUNCTION twice (x : REAL) : REAL; RETURN (2.0 * x); END_FUNCTION;\nENTITY anchor; at : len; END_ENTITY;\nEND_SCHEMA;\n'
        body = 'ENTITY beam; l : len; a : anchor;\n WHERE w1 : twice (l) > unit_len;\nEND_ENTITY;\nEND_SCHEMA;\n'
        out.append(('paths_%s_whole_schema_only' % kw.lower(), sup + 'SCHEMA top_s;\n%s FROM support;\n' % kw + body, True))
        out.append(('paths_%s_whole_schema_and_item' % kw.lower(), base + sup + 'SCHEMA top_s;\n%s FROM support;\n%s FROM base_s (point);\n' % (kw, kw) + body.replace('a : anchor;', 'a : anchor; p : point;'), True))
        out.append(('paths_%s_alias_clash' % kw.lower(), base + 'SCHEMA top_s;\n%s FROM base_s (point AS p, pixel AS p);\nENTITY holder; it : p; END_ENTITY;\nEND_SCHEMA;\n' % kw, False))
        out.append(('paths_%s_alias_clash_two_clauses' % kw.lower(), base + 'SCHEMA top_s;\n%s FROM base_s (point AS p);\n%s FROM base_s (pixel AS p);\nENTITY holder; it : p; END_ENTITY;\nEND_SCHEMA;\n' % (kw, kw), False))
        out.append(('paths_%s_alias_clash_with_plain' % kw.lower(), base + 'SCHEMA top_s;\n%s FROM base_s (pixel AS point, point);\nENTITY holder; it : point; END_ENTITY;\nEND_SCHEMA;\n' % kw, False))
    return out



def cyclic_subtypes():
    """(name, text, planted) - a circular subtype graph (cycle of 1, 2 or 3 entities) with one more entity hanging off it, as subtype of a member or referring to
    one; the extra entity has an attribute of its own and mentions an own, an inherited, or no attribute at all in a DERIVE: invalid whatever hangs off the cycle"""
    out = []
    for n in (1, 2, 3):
        cyc = ['zq_c%d' % i for i in range(n)]
        decl = ''.join('ENTITY %s SUBTYPE OF (%s); x%d : INTEGER; END_ENTITY;\n' % (cyc[i], cyc[(i + 1) % n], i) for i in range(n))
        for at in range(n):
            for how, head in (('subtype', 'ENTITY leaf SUBTYPE OF (%s);' % cyc[at]), ('refers', 'ENTITY leaf; r : %s;' % cyc[at])):
                for what, body in (('own', ' w : INTEGER;\n DERIVE\n  d : INTEGER := w + 1;'), ('inherited', ' w : INTEGER;\n DERIVE\n  d : INTEGER := %sx0 + 1;' % ('' if how == 'subtype' else 'r.')),
                                   ('plain', ' w : INTEGER;')):
                    for pos in ('after', 'before'):
                        leaf = '%s%s\nEND_ENTITY;\n' % (head, body)
                        text = 'SCHEMA cy;\n%s%s%sEND_SCHEMA;\n' % (leaf if pos == 'before' else '', decl, leaf if pos == 'after' else '')
                        out.append(('cycle%d_at%d_%s_%s_%s' % (n, at, how, what, pos), text, cyc[0]))
    return out


def _ordered_subsets(xs):
    out = [()]
    for n in range(1, len(xs) + 1):
        out += list(itertools.permutations(xs, n))
    return out


def _has_cycle(edges, n):
    color = [0] * n
    def dfs(u):
        color[u] = 1
        for v in edges[u]:
            if color[v] == 1 or (color[v] == 0 and dfs(v)):
                return True
        color[u] = 2
        return False
    return any(color[i] == 0 and dfs(i) for i in range(n))


def reference_digraphs(kind, tier='quick'):
    """(name, text, ok) - EVERY digraph on three declarations of one kind, each naming an ordered subset of the other two, under every order of
    declaration (what the cycle walk meets first depends on both orders): 'select' = SELECT types listing each other (plus one entity),
    'subtype' = entities naming each other as supertypes.  Valid exactly when the digraph has no cycle."""
    names = ['zq_a', 'zq_b', 'zq_c']
    choices = [_ordered_subsets([j for j in range(3) if j != i]) for i in range(3)]
    out = []
    for g in itertools.product(*choices):
        ok = not _has_cycle(g, 3)
        orders = list(itertools.permutations(range(3))) if (tier == 'thorough' or not ok) else [(0, 1, 2), (2, 1, 0)]
        for order in orders:
            decl = []
            for i in order:
                if kind == 'select':
                    decl.append('TYPE %s = SELECT (%s); END_TYPE;' % (names[i], ', '.join([names[j] for j in g[i]] + ['leaf'])))
                else:
                    decl.append('ENTITY %s%s; x%d : INTEGER; END_ENTITY;' % (names[i], (' SUBTYPE OF (%s)' % ', '.join(names[j] for j in g[i])) if g[i] else '', i))
            text = 'SCHEMA dg;\nENTITY leaf; v : INTEGER; END_ENTITY;\n%s\nEND_SCHEMA;\n' % '\n'.join(decl)
            gname = '_'.join(''.join('abc'[j] for j in g[i]) or '0' for i in range(3))
            out.append(('%s_%s_order%s' % (kind, gname, ''.join('abc'[i] for i in order)), text, ok))
    return out

def duplicate_kinds():
    """(name, text, planted) - one name declared twice in one schema by declarations of DIFFERENT kinds (entity, type, function, procedure, constant, rule),
    in both orders: a duplicate declaration whatever the kinds are"""
    D = {'entity': 'ENTITY %s; q : INTEGER; END_ENTITY;', 'type': 'TYPE %s = INTEGER; END_TYPE;', 'function': 'FUNCTION %s (x : INTEGER) : INTEGER; RETURN (x); END_FUNCTION;',
         'procedure': 'PROCEDURE %s (VAR x : INTEGER); x := 1; END_PROCEDURE;', 'constant': 'CONSTANT %s : INTEGER := 1; END_CONSTANT;',
         'rule': 'RULE %s FOR (other); WHERE w1 : SIZEOF (other) >= 0; END_RULE;'}
    out = []
    for a in D:
        for b in D:
            if a == b:
                continue
            first, second = D[a] % 'zq_twice', D[b] % 'zq_twice'
            if 'constant' in (a, b):
                # the grammar wants the constant block in front of the other declarations: what differs between the two orders is only which kind
                # the name had first, so one text per unordered pair with a constant
                if a != 'constant':
                    continue
                out.append(('dup_constant_and_%s' % b, 'SCHEMA dk;\n%s\nENTITY other; k : INTEGER; END_ENTITY;\n%s\nEND_SCHEMA;\n' % (first, second), 'zq_twice'))
                continue
            out.append(('dup_%s_then_%s' % (a, b), 'SCHEMA dk;\nENTITY other; k : INTEGER; END_ENTITY;\n%s\n%s\nEND_SCHEMA;\n' % (first, second), 'zq_twice'))
    return out
