#!/usr/bin/python3
"""C07 - pretty-printed EXPRESS is valid, equivalent to its source and stable.
E-input x configuration: grammar-directed schemas (every ordered pair of expression operators in the three
parenthesisation forms, every literal kind, aggregate initialisers, QUERY, intervals, every statement kind,
labelled and unlabelled rules, supertype expression shapes, remarks) + shipped schemas, printed at every line
length of a sweep with and without -t / -c; the output must be accepted, equivalent (expref normal form) and a
fixed point of the printer."""
import sys, os, json, re, itertools
sys.path.insert(0, '/verif')
from vlib import common, build, gfam, exptools, expref, drv
import shutil, subprocess

PID = 'C07'
ARITH = ['+', '-', '*', '/', 'DIV', 'MOD', '**']
LOGIC = ['AND', 'OR', 'XOR']
REL = ['<', '>', '<=', '>=', '<>', '=']


def op_family():
    out = {}
    # arithmetic: every ordered operator pair in three forms
    lines = []
    k = 0
    for o1 in ARITH:
        for o2 in ARITH:
            for form in ('a %s b %s c', '(a %s b) %s c', 'a %s (b %s c)'):
                k += 1
                lines.append('  d%d : REAL := %s;' % (k, form % (o1, o2)))
    # integer literals beyond 32 bits in every place a number can stand (EXPRESS integers are not bounded)
    out['g_bigint'] = ('SCHEMA g_bigint;\nCONSTANT big : INTEGER := 4000000000; edge : INTEGER := 2147483648; small : INTEGER := 2147483647;\nEND_CONSTANT;\n'
                       'TYPE txt = STRING (3000000000); END_TYPE;\nTYPE arr = ARRAY [1:5000000000] OF INTEGER; END_TYPE;\n'
                       'ENTITY e; a : INTEGER; l : LIST [0:4294967296] OF REAL;\n DERIVE\n  d : INTEGER := a + 6000000000;\n WHERE\n  w1 : a < 8589934592;\nEND_ENTITY;\nEND_SCHEMA;\n')
    out['g_arith'] = 'SCHEMA g_arith;\nENTITY e; a : REAL; b : REAL; c : REAL;\n DERIVE\n%s\nEND_ENTITY;\nEND_SCHEMA;\n' % '\n'.join(lines)
    lines = []
    k = 0
    for o1 in LOGIC:
        for o2 in LOGIC:
            for form in ('p %s q %s r', '(p %s q) %s r', 'p %s (q %s r)'):
                k += 1
                lines.append('  l%d : LOGICAL := %s;' % (k, form % (o1, o2)))
    for o in LOGIC:
        k += 1
        lines.append('  l%d : LOGICAL := NOT p %s q;' % (k, o))
        k += 1
        lines.append('  l%d : LOGICAL := NOT (p %s q);' % (k, o))
        k += 1
        lines.append('  l%d : LOGICAL := p %s NOT q;' % (k, o))
    out['g_logic'] = 'SCHEMA g_logic;\nENTITY e; p : LOGICAL; q : LOGICAL; r : LOGICAL;\n DERIVE\n%s\nEND_ENTITY;\nEND_SCHEMA;\n' % '\n'.join(lines)
    lines = []
    k = 0
    for r1 in REL:
        for lo in LOGIC:
            k += 1
            lines.append('  m%d : LOGICAL := (a %s b) %s (c %s a);' % (k, r1, lo, REL[(REL.index(r1) + 1) % len(REL)]))
        for ao in ('+', '*', '-'):
            k += 1
            lines.append('  m%d : LOGICAL := a %s b %s c;' % (k, ao, r1))
            k += 1
            lines.append('  m%d : LOGICAL := a %s (b %s c);' % (k, r1, ao))
            k += 1
            lines.append('  m%d : LOGICAL := (a %s b) %s c;' % (k, ao, r1))
    # relational operators do not associate: every ordered pair in the three forms (the parenthesised ones must keep their grouping)
    for r1 in REL + ['IN', 'LIKE', ':=:', ':<>:']:
        for r2 in REL + ['IN', ':=:']:
            for form in ('(p %s q) %s r', 'p %s (q %s r)'):
                k += 1
                lines.append('  m%d : LOGICAL := %s;' % (k, form % (r1, r2)))
    lines.append('  u1 : REAL := -a + b;')
    lines.append('  u2 : REAL := -(a + b);')
    lines.append('  u3 : REAL := a * (-b);')
    lines.append('  u4 : REAL := a - (-b);')
    lines.append('  u5 : REAL := -a ** 2;')
    lines.append('  u6 : REAL := (-a) ** 2;')
    out['g_rel'] = 'SCHEMA g_rel;\nENTITY e; a : REAL; b : REAL; c : REAL; p : LOGICAL; q : LOGICAL; r : LOGICAL;\n DERIVE\n%s\nEND_ENTITY;\nEND_SCHEMA;\n' % '\n'.join(lines)
    out['g_lit'] = r"""SCHEMA g_lit;
CONSTANT
  i1 : INTEGER := 0;
  i2 : INTEGER := 2147483647;
  r1 : REAL := 1.5E-3;
  r2 : REAL := 2.0;
  r3 : REAL := 1.0E10;
  r4 : REAL := 123.456;
  r5 : REAL := 1.E5;
  s1 : STRING := 'plain';
  s2 : STRING := 'it''s';
  s3 : STRING := '';
  s4 : STRING := 'a "quoted" word';
  s5 : STRING := 'aaaaaaaaaaaaaaaaaaaaaaaaaaaaaaaaaaaaaaaa bbbbbbbbbbbbbbbbbbbbbbbbbbbbbbbbbbbbbbbbbbbbb ccccccccccccccccccccccccccccccccccccccccccccccc ddddddddddddddddddddddddddddddd';
  s6 : STRING := 'aaaaaaaaaaaaaaaaaaaaaaaaaaaaaaaaaaaaaaaaaaaaaaaaaaaaaaaaaaaaaaaaaaaaaaaaaaaaaaaaaaaaaaaaaaaaaaaaaaaaaaaaaaaaaaaaaaaaaaa''bbbbbbbbbbbbbbbbbbbbbbbbbbbbbbbbbbbbbbbbbbbbbbbbbbbb';
  e1 : STRING := "00000041";
  b1 : BINARY := %0101;
  l1 : LOGICAL := TRUE;
  l2 : LOGICAL := UNKNOWN;
  l3 : BOOLEAN := FALSE;
  a1 : LIST OF INTEGER := [1, 2, 3];
  a2 : LIST OF INTEGER := [];
  a3 : LIST OF INTEGER := [0, 0, 1];
  a4 : LIST OF INTEGER := [1 : 3];
  a5 : LIST OF INTEGER := [1, 2 : 3, 4];
  a6 : LIST OF LIST OF INTEGER := [[1, 2], [3]];
  p1 : REAL := PI;
  p2 : REAL := CONST_E;
END_CONSTANT;
END_SCHEMA;
"""
    rules = [('unlabelled', 'x > 0'), ('labelled', 'wr1 : x > 0'), ('interval_le_lt', 'wr1 : {1 <= x < 10}'), ('interval_lt_le', 'wr1 : {1 < x <= 10}'), ('in_aggregate', 'wr1 : x IN [0, 0, 1]'),
             ('query', 'wr1 : SIZEOF (QUERY (q <* l | q > x)) = 0'), ('like', "wr1 : EXISTS (s) AND (s LIKE 'a*')"), ('index', 'wr1 : l[1] + l[x] > SIZEOF (l)'),
             ('typeof', "wr1 : ('G_WHERE.E' IN TYPEOF (SELF)) OR (x = ?)"), ('two_unlabelled', 'x > 0;\n  y > 0'), ('mixed_labels', 'x > 0;\n  wr2 : y > 0'),
             ('group_ref', 'wr1 : SELF\\e_group_ref.x > 0'), ('nested_query', 'wr1 : SIZEOF (QUERY (q <* l | SIZEOF (QUERY (r <* l | r > q)) > 0)) = 0'),
             ('string_concat', "wr1 : s + 'x' = 'ax'"), ('real_zero', 'wr1 : x > 0.0'), ('neg_literal', 'wr1 : x > -1')]
    for nm, rule in rules:
        out['g_where_' + nm] = 'SCHEMA g_where_%s;\nENTITY e_%s; x : INTEGER; y : INTEGER; l : LIST OF INTEGER; s : STRING;\n WHERE\n  %s;\nEND_ENTITY;\nEND_SCHEMA;\n' % (nm, nm, rule)
    out['g_where_type'] = 'SCHEMA g_where_type;\nTYPE t1 = INTEGER;\n WHERE\n  SELF > 0;\nEND_TYPE;\nTYPE t2 = INTEGER;\n WHERE\n  wr1 : SELF > 0;\n  wr2 : SELF < 10;\nEND_TYPE;\nEND_SCHEMA;\n'
    out['g_unique'] = 'SCHEMA g_unique;\nENTITY e; x : INTEGER; y : INTEGER;\n UNIQUE\n  ur1 : x;\n  x, y;\nEND_ENTITY;\nEND_SCHEMA;\n'
    out['g_rule'] = 'SCHEMA g_rule;\nENTITY e; x : INTEGER; END_ENTITY;\nRULE r FOR (e);\n WHERE\n  SIZEOF (e) > 0;\n  wr2 : SIZEOF (QUERY (q <* e | q.x > 1)) <= 1;\nEND_RULE;\nEND_SCHEMA;\n'
    out['g_super'] = r"""SCHEMA g_super;
ENTITY r1 SUPERTYPE OF (ONEOF (a1, a2, a3)); END_ENTITY;
ENTITY a1 SUBTYPE OF (r1); END_ENTITY;
ENTITY a2 SUBTYPE OF (r1); END_ENTITY;
ENTITY a3 SUBTYPE OF (r1); END_ENTITY;
ENTITY r2 ABSTRACT SUPERTYPE OF (b1 AND b2 ANDOR b3); END_ENTITY;
ENTITY b1 SUBTYPE OF (r2); END_ENTITY;
ENTITY b2 SUBTYPE OF (r2); END_ENTITY;
ENTITY b3 SUBTYPE OF (r2); END_ENTITY;
ENTITY r3 SUPERTYPE OF (ONEOF (c1, c2) AND c3); END_ENTITY;
ENTITY c1 SUBTYPE OF (r3); END_ENTITY;
ENTITY c2 SUBTYPE OF (r3); END_ENTITY;
ENTITY c3 SUBTYPE OF (r3); END_ENTITY;
ENTITY r4 SUPERTYPE OF ((d1 ANDOR d2) AND d3); END_ENTITY;
ENTITY d1 SUBTYPE OF (r4); END_ENTITY;
ENTITY d2 SUBTYPE OF (r4); END_ENTITY;
ENTITY d3 SUBTYPE OF (r4); END_ENTITY;
ENTITY r5 ABSTRACT SUPERTYPE; END_ENTITY;
ENTITY f1 SUBTYPE OF (r5, r1); END_ENTITY;
END_SCHEMA;
"""
    stmts = [('assign', 'x := a + b;'), ('if', 'IF a > 0 THEN\n    x := 1.5;\n  END_IF;'), ('if_else', 'IF a > 1 THEN\n    x := 2.5;\n  ELSE\n    x := 3.5;\n    x := x + 1.5;\n  END_IF;'),
             ('case', 'CASE a OF\n    1 : x := 1.5;\n    4 : BEGIN x := 4.5; x := x * 2.5; END;\n    OTHERWISE : x := 0.5;\n  END_CASE;'),
             ('case_multi_label', 'CASE a OF\n    1 : x := 1.5;\n    2, 3 : x := 2.5;\n  END_CASE;'),
             ('repeat_to', 'REPEAT i := 1 TO 10;\n    x := x + i;\n  END_REPEAT;'), ('repeat_by', 'REPEAT i := 10 TO 1 BY -1;\n    x := x - i;\n  END_REPEAT;'),
             ('repeat_by2', 'REPEAT i := 1 TO 10 BY 2;\n    x := x - i;\n  END_REPEAT;'),
             ('repeat_while', 'REPEAT WHILE x < 100.5;\n    x := x * 2.5;\n  END_REPEAT;'), ('repeat_until', 'REPEAT UNTIL x > 1000.5;\n    x := x * 3.5;\n    IF x > 500.5 THEN ESCAPE; END_IF;\n    SKIP;\n  END_REPEAT;'),
             ('repeat_all', 'REPEAT i := 1 TO 3 BY 1 WHILE x > 0.5 UNTIL x > 9.5;\n    x := x + 1.5;\n  END_REPEAT;'),
             ('compound', 'BEGIN\n    agg := agg + [x, 1.5 : 3];\n    x := agg[1];\n  END;'), ('alias', 'ALIAS z FOR agg;\n    x := SIZEOF (z);\n  END_ALIAS;'),
             ('proc_call', 'p (x);'), ('builtin_proc', 'INSERT (agg, x, 0);'), ('local_real_zero', 'x := 0.0;'), ('null_stmt', ';')]
    for nm, st in stmts:
        out['g_stmt_' + nm] = ('SCHEMA g_stmt_%s;\nFUNCTION f (a : INTEGER; b : REAL; l : LIST OF REAL) : REAL;\n  LOCAL\n    x : REAL := 1.5;\n    i : INTEGER;\n    agg : LIST OF REAL := [];\n  END_LOCAL;\n  %s\n  RETURN (x);\nEND_FUNCTION;\n'
                               'PROCEDURE p (VAR r : REAL);\n  r := r + 1.5;\nEND_PROCEDURE;\nEND_SCHEMA;\n' % (nm, st))
    # formal parameter lists: every sequence of 1-3 parameters x {by value, VAR} x {named type T, named type U, INTEGER} (procedures), and the same
    # without VAR for functions
    import itertools
    procs = []
    k = 0
    for n in (1, 2, 3):
        for vars_ in itertools.product((False, True), repeat=n):
            for types in itertools.product(('tt', 'uu', 'INTEGER'), repeat=n):
                if n == 3 and len(set(types)) == 3 and not any(vars_):
                    continue
                k += 1
                ps = '; '.join('%sp%d : %s' % ('VAR ' if v else '', j, t) for j, (v, t) in enumerate(zip(vars_, types)))
                procs.append('PROCEDURE pr%d (%s);\n  p0 := p0;\nEND_PROCEDURE;' % (k, ps))
                if not any(vars_):
                    procs.append('FUNCTION fn%d (%s) : INTEGER;\n  RETURN (1);\nEND_FUNCTION;' % (k, ps))
    # the same parameter types written as one identifier list (a, b : T)
    procs.append('PROCEDURE pr0;\nEND_PROCEDURE;')
    procs.append('PROCEDURE pr00;\n  LOCAL\n    x : tt;\n  END_LOCAL;\n  x := 1.5;\nEND_PROCEDURE;')
    procs.append('FUNCTION fn0 : INTEGER;\n  RETURN (1);\nEND_FUNCTION;')
    procs.append('PROCEDURE prl1 (a, b : tt; VAR c, d : tt; e : tt);\n  c := a;\nEND_PROCEDURE;')
    procs.append('PROCEDURE prl2 (VAR a : tt; b : tt; VAR c : tt);\n  a := b;\nEND_PROCEDURE;')
    out['g_params'] = 'SCHEMA g_params;\nTYPE tt = REAL; END_TYPE;\nTYPE uu = REAL; END_TYPE;\n' + '\n'.join(procs) + '\nEND_SCHEMA;\n'
    # real literals: mantissas x every decimal exponent -40..40 (the printer chooses between plain and exponent form and trims zeros)
    cons = []
    k = 0
    for mant in ('1.0', '1.5', '2.50', '9.75', '1.0000000001', '123.456'):
        for ex in range(-40, 41):
            k += 1
            cons.append('  r%d : REAL := %sE%d;' % (k, mant, ex))
    # precision / width specifications wherever a type can stand
    out['g_widths'] = ('SCHEMA g_widths;\nTYPE coarse = REAL (4); END_TYPE;\nTYPE code = STRING (10) FIXED; END_TYPE;\nTYPE nm = STRING (30); END_TYPE;\nTYPE bits = BINARY (8); END_TYPE;\n'
                       'TYPE fbits = BINARY (16) FIXED; END_TYPE;\nTYPE lr = LIST [1:?] OF REAL (6); END_TYPE;\n'
                       'ENTITY e; a : REAL (3); b : OPTIONAL STRING (5) FIXED; c : ARRAY [1:3] OF REAL (2); d : SET OF STRING (7);\n DERIVE\n  h : REAL (2) := a / 2.0;\nEND_ENTITY;\n'
                       'FUNCTION f (p : REAL (5); q : STRING (2)) : REAL (8);\n  LOCAL\n    t : REAL (9) := 0.5;\n    digits : INTEGER := 3;\n    u : REAL (digits + 2) := 1.5;\n  END_LOCAL;\n  RETURN (t + u + p);\nEND_FUNCTION;\nEND_SCHEMA;\n')
    out['g_reals'] = 'SCHEMA g_reals;\nCONSTANT\n' + '\n'.join(cons) + '\nEND_CONSTANT;\nEND_SCHEMA;\n'
    return out


def pp(text, args):
    """exppp on text with args; returns (rc, output text or None, tool output)"""
    d = drv.scratch_dir('pp')
    try:
        src = os.path.join(d, 'in.exp')
        with open(src, 'wb') as f:
            f.write(text if isinstance(text, bytes) else text.encode('latin1'))
        out = os.path.join(d, 'out.exp')
        nsch = len(re.findall(r'(?im)^\s*SCHEMA\s', text if isinstance(text, str) else text.decode('latin1')))
        if nsch > 1:
            # the printer writes one file per schema into the working directory
            od = os.path.join(d, 'o')
            os.makedirs(od)
            rc, o, _ = common.run(['setarch', '-R', build.tool('exppp')] + list(args) + [src], cwd=od, timeout=300, merge=True)
            fs = sorted(f for f in os.listdir(od) if f.endswith('.exp'))
            data = '\n'.join(open(os.path.join(od, f), 'rb').read().decode('latin1') for f in fs) if fs else None
            return rc, data, o.decode('latin1')
        rc, o, _ = common.run(['setarch', '-R', build.tool('exppp')] + list(args) + ['-o', out, src], cwd=d, timeout=300, merge=True)
        data = open(out, 'rb').read().decode('latin1') if os.path.exists(out) else None
        return rc, data, o.decode('latin1')
    finally:
        shutil.rmtree(d, ignore_errors=True)


def accepted(text):
    d = drv.scratch_dir('ce')
    try:
        src = os.path.join(d, 'pp_out.exp')
        with open(src, 'w', encoding='latin1') as f:
            f.write(text)
        rc, o, _ = common.run(['setarch', '-R', build.tool('check-express'), src], cwd=d, timeout=300, merge=True)
        first = next((l for l in o.decode('latin1').split('\n') if 'ERROR' in l), '')
        return rc == 0, first
    finally:
        shutil.rmtree(d, ignore_errors=True)


def tokclass(t):
    if t is None:
        return 'end'
    k, v = t
    if k == 'op':
        return v
    if k == 'id':
        return v if v in expref.PREC or v in ('not', 'self', 'query', 'oneof', 'andor', 'where', 'unique', 'derive', 'inverse', 'alias', 'case', 'begin', 'otherwise', 'for') or v.startswith('<') else 'id'
    return k


def construct_of(decl_kind, toks, k):
    """coarse name of the construct around token k of a declaration, for the finding key"""
    back = toks[max(0, k - 40):k + 1]
    for t in reversed(back):
        if t[0] == 'id' and t[1] in ('where', 'unique', 'derive', 'inverse', 'supertype', 'case', 'repeat', 'alias', 'if', 'local', 'return', 'query', 'constant'):
            return t[1]
    return decl_kind


def compare(src, out):
    """-> list of (keypart, what)"""
    res = []
    try:
        A = expref.split_schemas(expref.norm_tokens(src))
        B = expref.split_schemas(expref.norm_tokens(out))
    except Exception as e:
        return [('harness/normal-form', repr(e))]
    aliases = {m.group(2).lower(): m.group(1).lower() for m in re.finditer(r'(?i)\b([a-z][a-z0-9_]*)\s+AS\s+([a-z][a-z0-9_]*)', src if isinstance(src, str) else src.decode('latin1'))}
    if sorted(A) != sorted(B):
        return [('schemas-differ', 'source declares schemas %s, output %s' % (sorted(A), sorted(B)))]
    for sn in A:
        da, db = A[sn], B[sn]
        ka = set(k for k in da if k[0] != 'interface')
        kb = set(k for k in db if k[0] != 'interface')
        for k in sorted(ka - kb):
            res.append(('declaration-lost/%s' % k[0], '%s %s of schema %s is missing in the output' % (k[0], k[1], sn)))
        for k in sorted(kb - ka):
            res.append(('declaration-added/%s' % k[0], 'output declares %s %s which the source does not' % (k[0], k[1])))
        def iface(v):
            # USE FROM s ( a , b AS c ) ;  ->  (use, s, sorted items)
            txt = ' '.join(str(t[1]) for t in v)
            m = re.match(r'(use|reference) from (\S+)(?: \( (.*) \))? ;', txt)
            return (m.group(1), m.group(2), tuple(sorted((m.group(3) or '').split(' , ')))) if m else txt
        ia = sorted(repr(iface(v)) for k, v in da.items() if k[0] == 'interface')
        ib = sorted(repr(iface(v)) for k, v in db.items() if k[0] == 'interface')
        if ia != ib:
            res.append(('interface-clauses', 'USE/REFERENCE clauses differ in schema %s' % sn))
        for k in sorted(ka & kb):
            ca = expref.canon_decl(da[k])
            cb = expref.canon_decl(db[k])
            if ca != cb and ('op', '{') in ca and ('op', '{') not in cb:
                # the (listed) rewriting of intervals into conjunctions: report it, then compare what lies beyond it
                p0 = ca.index(('op', '{'))
                res.append(('not-equivalent/%s/interval-desugared' % construct_of(k[0], ca, p0), '%s %s: source ...%s  |  output ...%s' % (
                    k[0], k[1], expref.render(ca[max(0, p0 - 6):p0 + 6], 110), expref.render(cb[max(0, p0 - 6):p0 + 6], 110))))
                ca = expref.canon_decl(expref.desugar_intervals(da[k])[0])
            if ca != cb:
                p = expref.first_diff(ca, cb)
                x = ca[p] if p < len(ca) else None
                y = cb[p] if p < len(cb) else None
                cons = construct_of(k[0], ca, p)
                cls = '%s->%s' % (tokclass(x), tokclass(y))
                if x and y and x[0] == y[0] == 'str':
                    cls = 'string-content'
                if x and y and {x[0], y[0]} == {'real', 'int'}:
                    cls = 'real->int' if x[0] == 'real' else 'int->real'
                if (x == ('op', '(')) != (y == ('op', '(')) or (x == ('op', ')')) != (y == ('op', ')')):
                    ctx = [expref._val(t) for t in (ca[max(0, p - 4):p + 5]) if expref._val(t) in expref.PREC or expref._val(t) in expref.UNARY]
                    cls = 'parentheses:' + '_'.join(ctx[:3])
                if x == ('op', '{') and y != ('op', '{'):
                    cls = 'interval-desugared'
                if x and x[0] == 'int' and int(x[1]) > 2147483647:
                    cls = 'integer-literal-beyond-32-bits'      # the scanner reads integer literals into an int
                if x and y and x[0] == y[0] == 'id' and aliases.get(str(x[1]).lower()) == str(y[1]).lower():
                    cls = 'interfaced-alias->original-name'      # 'USE FROM s (y AS x)': the printer names the item by the name it has in s
                    cons = 'reference'
                res.append(('not-equivalent/%s/%s' % (cons, cls), '%s %s: source ...%s  |  output ...%s' % (k[0], k[1], expref.render(ca[max(0, p - 6):p + 6], 110), expref.render(cb[max(0, p - 6):p + 6], 110))))
    return res


def run_cfg(job):
    name, text, args = job
    rc, out, log = pp(text, args)
    res = {'rc': rc}
    if rc != 0 or out is None:
        res['fail'] = log[-300:]
        return res
    ok, first = accepted(out)
    res['accepted'] = ok
    res['first_error'] = first
    res['diffs'] = compare(text if isinstance(text, str) else text.decode('latin1'), out)
    rc2, out2, log2 = pp(out, args)
    if rc2 != 0 or out2 is None:
        res['reprint_fail'] = log2[-200:]
    else:
        a = expref.norm_tokens(out)
        b = expref.norm_tokens(out2)
        if a != b:
            p = expref.first_diff(a, b)
            res['reprint_diff'] = (expref.render(a[max(0, p - 8):p + 6], 120), expref.render(b[max(0, p - 8):p + 6], 120), tokclass(a[p] if p < len(a) else None), tokclass(b[p] if p < len(b) else None))
    return res


def classify_reject(first):
    m = re.search(r'PE\d+: (.*)', first or '')
    msg = m.group(1) if m else (first or 'no message')
    msg = re.sub(r'in (entity|function|rule|type|procedure) \S+', r'in \1 X', msg)
    msg = re.sub(r'\S*pp_out\.exp', 'F', msg)
    return re.sub(r'\s+', ' ', msg)[:60]


def replay(path):
    obj = json.load(open(path))
    c = obj['case']
    text = c['text'] if c.get('text') is not None else open(c['path'], encoding='latin1').read()
    r = run_cfg((c['name'], text, c['args']))
    rc, out, log = pp(text, c['args'])
    print((out or '')[:3000])
    print({k: v for k, v in r.items()})
    return 1 if (r.get('fail') or not r.get('accepted') or r.get('diffs') or r.get('reprint_diff')) else 0


def main():
    args = common.parse_args(sys.argv[1:])
    if args.replay:
        sys.exit(replay(args.replay))
    chk = common.Check(PID, args.tier, deadline_s=args.deadline)
    build.ensure('plain')
    fam = op_family()
    schemas = sorted(fam.items()) + [(n, t) for n, t in gfam.valid_schemas(args.tier) if n not in ('gk',)]
    for n, p in gfam.shipped():
        if 'unitary_schemas' in n or args.tier == 'thorough' or 'ap203/' in n:
            schemas.append(('shipped/' + n, open(p, encoding='latin1').read()))
    sparse = [10, 11, 20, 40, 60, 75, 76, 80, 100, 130, 160, 99999]
    sweep_all = list(range(10, 161)) + [200, 1000, 99999]
    jobs = []
    for name, text in schemas:
        full = args.tier == 'thorough' or name in ('g_arith', 'g_lit', 'g_where_typeof', 'g_stmt_if_else', 'g_super')
        if name.startswith('shipped/') and args.tier == 'quick':
            lens = [75, 40]
        else:
            lens = sweep_all if full else sparse
        for L in lens:
            jobs.append((name, text, ['-l', str(L)]))
        for extra in (['-t'], ['-c'], ['-t', '-c']):
            jobs.append((name, text, ['-l', '75'] + extra))
            if args.tier == 'thorough':
                jobs.append((name, text, ['-l', '20'] + extra))
    chk.rule = ('schemas: every ordered pair of arithmetic operators (7x7) and of logical operators (3x3) in the forms "a o b o c", "(a o b) o c", "a o (b o c)", relational/logical/arithmetic '
                'mixes, unary operators, every literal kind (reals in exponent form, strings with quotes, long strings, encoded strings, binary, logical), aggregate initialisers with '
                'repetition, QUERY, intervals, labelled and unlabelled WHERE/UNIQUE rules, supertype expression shapes, every statement kind, the generated feature family and shipped '
                'schemas; configurations: every line length 10..160, 200, 1000, 99999 on 4 schemas and 12 lengths on the others (thorough: full sweep on all), -t, -c; state = (schema, length, '
                'flags), transition = print + check + reprint; oracle = accepted by check-express, expref normal forms equal, second print token-identical')
    chk.assumptions = ['expref: equal after removing precedence-redundant parentheses, case folding outside strings, numeric literals by kind and value, split string literals re-joined, declaration order and '
                       'LOCAL order ignored', 'comments are not compared']
    results = common.pmap(run_cfg, jobs, chunksize=4)
    per_schema_ok = {}
    for (name, text, a), r in zip(jobs, results):
        chk.count(states=1, transitions=3)
        fam_name = name.split('/')[0]
        chk.cls('%s/%s' % (fam_name if not name.startswith('g_') else name, 'flags' if len(a) > 2 else 'length'))
        case = {'name': name, 'args': a, 'text': text if len(text) < 20000 else None, 'path': None}
        bad = False
        origs = set(m.group(1).lower() for m in re.finditer(r'(?i)\b([a-z][a-z0-9_]*)\s+AS\s+[a-z]', text)) if len(text) < 200000 else set()
        alias_lost = lambda msg: bool(origs) and any(re.search(r'(?i)undefined (type|object) %s\b' % re.escape(o), msg or '') for o in origs)
        if r.get('fail') is not None:
            chk.outcome('print-failed')
            chk.violation('%s/print-failed/%s/rc=%s' % (PID, name if len(name) < 30 else fam_name, r['rc']), 'exppp %s fails on %s: %s' % (' '.join(a), name, r['fail'][-150:]), case)
            continue
        if not r['accepted']:
            bad = True
            chk.outcome('output-rejected')
            chk.violation(('%s/output-rejected/interfaced-alias->original-name' % PID) if alias_lost(r['first_error']) else '%s/output-rejected/%s/%s' % (PID, name if name.startswith('g_') else fam_name, classify_reject(r['first_error'])), 'the output of exppp %s for %s is rejected by check-express: %s' % (' '.join(a), name, r['first_error'][-160:]), case)
        for kp, what in r['diffs']:
            bad = True
            chk.outcome(kp.split('/')[0])
            chk.violation('%s/%s%s' % (PID, kp, ('/' + name) if name.startswith('g_') and kp.startswith('not-equivalent') else ''), '%s (exppp %s): %s' % (name, ' '.join(a), what), case)
        if r.get('reprint_fail'):
            bad = True
            chk.violation(('%s/reprint-failed/interfaced-alias->original-name' % PID) if alias_lost(r['reprint_fail']) else '%s/reprint-failed/%s' % (PID, name if name.startswith('g_') else fam_name), 'printing the output of %s again fails: %s' % (name, r['reprint_fail']), case)
        if r.get('reprint_diff'):
            bad = True
            d = r['reprint_diff']
            chk.outcome('reprint-differs')
            big = any(int(n) > 2147483647 for n in re.findall(r'(?<![\w.])\d+(?![\w.])', d[0]))
            chk.violation(('%s/reprint-differs/%s/integer-literal-beyond-32-bits' % (PID, name if name.startswith('g_') else fam_name)) if big else
                          '%s/reprint-differs/%s/%s->%s' % (PID, name if name.startswith('g_') else fam_name, d[2], d[3]), '%s (exppp %s): second print differs: ...%s | ...%s' % (name, ' '.join(a), d[0], d[1]), case)
        if not bad:
            chk.outcome('valid-equivalent-stable')
            chk.sample({'schema': name, 'args': a}, maxn=6)
    chk.bounds = {'schemas': len(schemas), 'configurations': len(jobs)}
    if chk.outcomes.get('valid-equivalent-stable', 0) == 0:
        chk.harness_error('vacuous: %s' % dict(chk.outcomes))
    sys.exit(chk.finish())


if __name__ == '__main__':
    main()
