/* LD_PRELOAD shim: allocates (and keeps) VERIF_HEAPSHIFT bytes before main() so that every later
 * heap address is shifted by a chosen amount; with ASLR off this makes "another address-space
 * layout" a replayable configuration. */
#include <stdlib.h>
#include <string.h>
static void * keep;
__attribute__((constructor)) static void shift(void) {
    const char * s = getenv("VERIF_HEAPSHIFT");
    if (s && *s) {
        size_t n = (size_t) strtoul(s, 0, 10);
        if (n) {
            keep = malloc(n);
            if (keep) memset(keep, 0x5a, n < 4096 ? n : 4096);
        }
    }
}
