#!/usr/bin/python3
"""C01 - exchange files survive read-then-write.  Deviation-bounded exhaustive enumeration over
conforming populations of packed schema families, run on the real STEPfile through p21drv."""
import sys, os, json, re, itertools
sys.path.insert(0, '/verif')
from vlib import common, build, smodel, p21ref, p21run, drv

PID = 'C01'
GAPFILL = [' ', '\n', '\t', '  \n ', '/*c*/', ' /*c*/ ', '/* ; */', '/* ) */', "/* ' */", '/* ( */', '/* , */', '/* #1=X(); */', '/**/', '/***/']
FILLCLS = {'/* ; */': 'comment-semi', '/* ) */': 'comment-rparen', "/* ' */": 'comment-quote', '/* ( */': 'comment-lparen', '/* , */': 'comment-comma',
           '/* #1=X(); */': 'comment-instance', '/**/': 'comment-empty', '/***/': 'comment-star'}
IDSETS = [(1, 2, 3, 4, 5, 10), (1, 2, 3, 4, 5, 999), (1, 2, 3, 4, 5, 1000), (100, 200, 300, 400, 500, 2147483647), (10, 9, 8, 7, 6, 5)]


def typekey(t):
    return t.key()


class Space:
    """builds the cases for one family schema"""

    def __init__(self, schema, tier):
        self.s = schema
        self.tier = tier
        self.lits = smodel.Lits(schema, smodel.SUPPORT_REFS)
        self.support = [smodel.inst_text(*i) for i in smodel.SUPPORT_POP]
        self.support_names = {'tgt', 'tgt2', 'tgtsub'}

    def entities(self):
        return [e for e in self.s.entities if e.name not in self.support_names]

    def base(self, ename):
        pa = self.s.p21_attrs(ename)
        return [('*' if redecl else self.lits.alts(a.type, short=True)[0]) for _, a, redecl in pa]

    def file(self, test_insts, order='after', header=None):
        insts = (self.support + test_insts) if order == 'after' else (test_insts + self.support)
        return smodel.file_text(self.s.name, insts, header)

    def cases(self, ename):
        """yield dicts: text, site (class), detail, ent"""
        s = self.s
        pa = s.p21_attrs(ename)
        base = self.base(ename)
        E = ename.upper()
        abstract = s.tmap()[1][ename].abstract
        if abstract or ename in s.noinst:
            return
        full = self.tier == 'thorough'
        yield {'ent': ename, 'site': 'default', 'detail': '', 'text': self.file([smodel.inst_text(10, E, base)]), 'default': True}
        # value sites
        for k, (owner, a, redecl) in enumerate(pa):
            if redecl:
                continue
            alts = self.lits.alts(a.type)
            if ename.startswith('p_') and not full:
                alts = alts[:4]
            for alt in alts[1:]:
                p = list(base)
                p[k] = alt
                yield {'ent': ename, 'site': 'value', 'attr': k, 'detail': alt, 'text': self.file([smodel.inst_text(10, E, p)])}
            if a.optional:
                p = list(base)
                p[k] = '$'
                yield {'ent': ename, 'site': 'value', 'attr': k, 'detail': '$', 'text': self.file([smodel.inst_text(10, E, p)])}
        # lexical sites: every gap between two tokens of the test instance
        if not ename.startswith('p_') or full:
            toks = p21run.tokenize(smodel.inst_text(10, E, base))
            grp = lambda c: 'val' if c in ('int', 'real', 'str', 'bin', 'enum', 'ref', '$', '*') else c
            depth = 0
            for g in range(len(toks) + 1):
                prev = p21run.tokclass(toks[g - 1]) if g > 0 else '^'
                nxt = p21run.tokclass(toks[g]) if g < len(toks) else '$'
                if prev == '(':
                    depth += 1
                if prev == ')':
                    depth -= 1
                pg, ng = grp(prev), grp(nxt)
                if pg == 'val' or ng == 'val':
                    # the literal kind of the adjacent value matters to which scanner runs
                    vk = prev if pg == 'val' else nxt
                    pg = ('val:' + vk) if pg == 'val' else pg
                    ng = ('val:' + vk) if ng == 'val' else ng
                for fill in GAPFILL:
                    t = ''.join(toks[:g]) + fill + ''.join(toks[g:])
                    fc = FILLCLS.get(fill, 'comment' if '/*' in fill else 'ws')
                    yield {'ent': ename, 'site': 'lex', 'detail': 'd%d:%s|%s|%s' % (min(depth, 2), pg, ng, fc), 'fill': fill,
                           'text': self.file([t])}
        # two deviations (thorough): every value alternative x every filler in every gap of the resulting instance (kind entities),
        # every pair of value alternatives (pair entities)
        if full and ename.startswith(('e_', 'o_')) and len(pa) == 1 and not pa[0][2]:
            alts = self.lits.alts(pa[0][1].type)
            for alt in alts[1:]:
                toks = p21run.tokenize(smodel.inst_text(10, E, [alt]))
                depth = 0
                for g in range(len(toks) + 1):
                    prev = p21run.tokclass(toks[g - 1]) if g > 0 else '^'
                    nxt = p21run.tokclass(toks[g]) if g < len(toks) else '$'
                    if prev == '(':
                        depth += 1
                    if prev == ')':
                        depth -= 1
                    grp = lambda c: 'val' if c in ('int', 'real', 'str', 'bin', 'enum', 'ref', '$', '*') else c
                    for fill in (' ', '\n', '/*c*/'):
                        t = ''.join(toks[:g]) + fill + ''.join(toks[g:])
                        fc = 'comment' if '/*' in fill else 'ws'
                        yield {'ent': ename, 'site': 'lex', 'attr': 0, 'detail': 'd%d:%s|%s|%s' % (min(depth, 2), grp(prev), grp(nxt), fc), 'fill': fill, 'text': self.file([t]), 'two': alt}
        if full and ename.startswith('p_') and len(pa) == 2:
            a0 = self.lits.alts(pa[0][1].type)
            a1 = self.lits.alts(pa[1][1].type)
            for x in a0[1:]:
                for y in a1[1:]:
                    yield {'ent': ename, 'site': 'value', 'attr': 0, 'detail': x, 'text': self.file([smodel.inst_text(10, E, [x, y])]), 'two': y}
        # structural sites
        yield {'ent': ename, 'site': 'order', 'detail': 'forward-refs', 'text': self.file([smodel.inst_text(10, E, base)], order='before')}
        if ename.startswith(('e_', 'o_')):
            # the session object has read another file before (ReadExchangeFile starts from an empty session): other ids, more instances
            ren = lambda txt: re.sub(r'#(\d+)', lambda mm: '#%d' % (int(mm.group(1)) * 100 + 7), txt)
            prior = smodel.file_text(self.s.name, [ren(x) for x in self.support + [smodel.inst_text(10, E, base), smodel.inst_text(11, E, base)]], None)
            yield {'ent': ename, 'site': 'session-reuse', 'detail': 'second-read', 'text': self.file([smodel.inst_text(10, E, base)]), 'prior': prior}
        if not ename.startswith('p_') or full:
            for ids in IDSETS[1:]:
                m = dict(zip(IDSETS[0], ids))
                ren = lambda txt: re.sub(r'#(\d+)', lambda mm: '#%d' % m[int(mm.group(1))], txt)
                insts = [ren(x) for x in self.support + [smodel.inst_text(10, E, base)]]
                yield {'ent': ename, 'site': 'ids', 'detail': 'ids=%s' % (ids[-1],), 'text': smodel.file_text(s.name, insts)}
        # external mapping of an entity that has supertypes
        order = s.ancestors_ordered(ename)
        if len(order) > 1:
            ents = s.tmap()[1]
            parts = []
            redecl = set((d.redeclares, d.name) for n in order for d in ents[n].derived if d.redeclares)
            for n in sorted(order):
                vals = ['*' if (n, a.name) in redecl else self.lits.alts(a.type, short=True)[0] for a in ents[n].attrs if not a.redeclares]
                parts.append('%s(%s)' % (n.upper(), ','.join(vals)))
            yield {'ent': ename, 'site': 'complex', 'detail': 'external-mapping', 'text': self.file(['#10=(%s);' % ''.join(parts)])}
            if full:
                for perm in itertools.islice(itertools.permutations(parts), 1, 6):
                    pass  # part order other than alphabetical is not conforming (ISO 10303-21 11.2.5.3): not generated

    def header_cases(self):
        H = smodel.HEADER
        alts = {
            'desc2': H.replace("('verif')", "('verif','second')"),
            'desc3': H.replace("('verif')", "('a','b','c')"),
            'authors2': H.replace("('au')", "('au','bu')").replace("('org')", "('o1','o2','o3')"),
            'empty-strings': H.replace("'pp','os','auth'", "'','',''"),
            'quote': H.replace("'pp'", "'p''p'"),
            'hdr-comment': H.replace('HEADER;', 'HEADER; /* hc */'),
            'hdr-spacing': H.replace('FILE_NAME(', 'FILE_NAME (\n ').replace("('au'),", "( 'au' ) ,"),
            'schema-lower-asn': H,
        }
        for k, h in alts.items():
            yield {'ent': 'tgt', 'site': 'header', 'detail': k, 'text': smodel.file_text(self.s.name, self.support, header=h)}


def attr_kind(schema, ent_upper, idx, complex_part=False):
    ents = schema.tmap()[1]
    e = ent_upper.lower()
    if e not in ents:
        return '?'
    if complex_part:
        at = [x for x in ents[e].attrs if not x.redeclares]
        return typekey(at[idx].type) if idx < len(at) else '?'
    pa = schema.p21_attrs(e)
    return typekey(pa[idx][1].type) if idx < len(pa) else '?'


def compare(schema, case, res):
    out = compare0(schema, case, res)
    d = case.get('detail', '')
    if out and case['site'] == 'lex' and (d.startswith('d2:') or d.startswith('d1:kw|(')) and 'comment' in d and 'crash' not in res:
        # comments inside an aggregate or select value: one key per gap shape, whatever the effect
        gap = re.sub(r'val:\w+', 'val', d[3:].rsplit('|', 1)[0])
        return [('lex-comment-inside-aggregate-or-select/' + gap, out[0][1])]
    return out


def compare0(schema, case, res):
    """-> list of (keypart, description).  Empty = the property held on this case."""
    text = case['text'].encode('latin1') if isinstance(case['text'], str) else case['text']
    out = []
    site = case['site']
    ent = case['ent']
    kind = None
    if 'attr' in case:
        kind = typekey(schema.p21_attrs(ent)[case['attr']][1].type)
    elif ent.startswith(('e_', 'o_')):
        kind = ent[2:]
    if site == 'lex':
        ctx = 'lex:' + case['detail']
    elif site == 'value':
        ctx = 'value:%s:%s' % (kind, case['detail'])
    else:
        ctx = '%s:%s%s' % (site, kind or ent, (':' + case['detail']) if site in ('header', 'ids') else '')
    where = ctx
    lexd = ''
    if 'crash' in res:
        return [('crash/%s/%s' % tuple(res['crash']), 'crash %s in %s on %s' % (res['crash'][0], res['crash'][1], ctx))]
    try:
        pin = p21ref.parse_file(text)
    except p21ref.P21Error as e:
        raise RuntimeError('generator produced a non-conforming file: %s\n%s' % (e, text.decode('latin1')))
    if res['esev'] < 2:
        return [('read-error/%s/%s' % (ctx, p21run.msgsig(res.get('log'))), 'read severity %d on conforming file (%s)' % (res['esev'], ctx))]
    o1 = res.get('out1')
    if o1 is None:
        return [('no-output/%s' % where, 'no file written')]
    try:
        pout = p21ref.parse_file(o1)
    except p21ref.P21Error as e:
        return [('output-syntax/%s' % where, 'written file is not valid Part 21: %s' % e)]
    # header
    hin = [(k, v) for k, v in pin.header]
    hout = [(k, v) for k, v in pout.header]
    if len(hin) != len(hout) or [k for k, _ in hin] != [k for k, _ in hout]:
        out.append(('header/entities', 'header entities differ: %s -> %s' % ([k for k, _ in hin], [k for k, _ in hout])))
    else:
        for (k, a), (_, b) in zip(hin, hout):
            for pi, (x, y) in enumerate(zip(a, b)):
                if k == 'FILE_NAME' and pi == 1:
                    continue
                dd = p21ref.value_diff(x, y)
                if dd:
                    out.append(('header/%s[%d]/%s' % (k, pi, dd), 'header %s param %d: %s -> %s' % (k, pi, p21ref.render(x), p21ref.render(y))))
            if len(a) != len(b):
                out.append(('header/%s/param-count' % k, 'header param count'))
    # instances
    idin = [i.id for i in pin.insts]
    idout = [i.id for i in pout.insts]
    if idin != idout:
        out.append(('ids/%s' % (where,), 'instance ids/order differ: %s -> %s' % (idin, idout)))
    bo = pout.by_id()
    for i in pin.insts:
        j = bo.get(i.id)
        if j is None:
            continue
        if i.complex != j.complex and sorted(k for k, _ in i.parts) != sorted(k for k, _ in j.parts):
            out.append(('mapping/%s' % where, 'instance #%d mapping changed' % i.id))
            continue
        if i.complex:
            ma = dict(i.parts)
            mb = dict(j.parts)
            if set(ma) != set(mb):
                out.append(('complex-parts/%s' % where, '#%d parts %s -> %s' % (i.id, sorted(ma), sorted(mb))))
                continue
            pairs = [(k, ma[k], mb[k], True) for k in ma]
        else:
            if i.parts[0][0] != j.parts[0][0]:
                out.append(('entity-type/%s' % where, '#%d keyword %s -> %s' % (i.id, i.parts[0][0], j.parts[0][0])))
                continue
            pairs = [(i.parts[0][0], i.parts[0][1], j.parts[0][1], False)]
        for kw, pa, pb, cp in pairs:
            if len(pa) != len(pb):
                out.append(('param-count/%s' % where, '#%d %s: %d -> %d params' % (i.id, kw, len(pa), len(pb))))
                continue
            for idx, (x, y) in enumerate(zip(pa, pb)):
                ak = attr_kind(schema, kw, idx, cp)
                dd = p21ref.value_diff(x, y, 'NUMBER' if ak in ('numb', 'dnum') else None)
                if dd:
                    out.append(('value/%s/%s/%s' % (ctx if site == 'lex' else site, ak, dd), '#%d %s attr %d (%s): %s -> %s' % (i.id, kw, idx, ak, p21ref.render(x)[:80], p21ref.render(y)[:80])))
    # second cycle byte-identical
    o2 = res.get('out2')
    if o2 is None:
        out.append(('second-cycle/no-output/%s' % where, 'second write produced nothing'))
    elif p21ref.mask_timestamp(o1) != p21ref.mask_timestamp(o2):
        # name the first differing instance's kind
        l1 = p21ref.mask_timestamp(o1).split(b'\n')
        l2 = p21ref.mask_timestamp(o2).split(b'\n')
        dl = next(((a, b) for a, b in zip(l1, l2) if a != b), (b'', b''))
        m = re.match(rb'#\d+\s*=\s*([A-Z0-9_]+)', dl[0])
        kw = m.group(1).decode().lower() if m else ('header' if b'FILE_' in dl[0] else ('complex:' + case['ent'] if site == 'complex' else 'length'))
        out.append(('second-cycle/%s' % kw, 'second write differs: %r -> %r' % (dl[0][:100], dl[1][:100])))
    if res.get('sev2', 3) < 2 and not out:
        out.append(('reread-error/%s' % where, 're-reading the written file gives severity %d' % res['sev2']))
    return out


def isolate_crash(fam, case):
    """re-run a crashing case alone against a sanitizer build of the smallest schema that contains
    its entity; returns (class, site) from the sanitizer report (or the plain signal)."""
    ent = case['ent']
    if fam.name == 'fk':
        kinds = [k for k, _ in smodel.kinds() if ent[2:] == k or ent[2:].startswith(k + '_') or ent[2:].endswith('_' + k)]
        small = smodel.family_K('fk', pairs=[tuple(ent[2:].split('_', 1))] if ent.startswith('p_') and False else [], only=kinds) if not ent.startswith('p_') else fam
    else:
        small = fam
    try:
        lib = build.schema_lib(small.express(), 'san')
    except build.GenError:
        return None
    r = p21run.run_many(lib, [dict(case)], procs=1)[0]
    r2 = p21run.run_many(lib, [dict(case)], procs=1)[0]
    if 'crash' in r and r.get('crash') == r2.get('crash'):
        return tuple(r['crash'])
    return None


def schemas_for(tier):
    fams = []
    if tier == 'quick':
        fams.append(smodel.family_K('fk', pairs='core'))
    else:
        fams.append(smodel.family_K('fk', pairs='core'))
    fams.append(smodel.family_I('fi'))
    return fams


def replay(path):
    obj = json.load(open(path))
    case = obj['case']
    fam = {'fk': smodel.family_K('fk', pairs='core'), 'fi': smodel.family_I('fi')}[case['family']]
    lib = build.schema_lib(fam.express(), 'plain')
    r = p21run.run_many(lib, [case], procs=1)[0]
    diffs = compare(fam, case, r)
    print('input:\n' + case['text'])
    print('output:\n' + ((r.get('out1') or b'').decode('latin1')))
    print('diffs:', diffs)
    return 1 if diffs else 0


def main():
    args = common.parse_args(sys.argv[1:])
    if args.replay:
        sys.exit(replay(args.replay))
    chk = common.Check(PID, args.tier, deadline_s=args.deadline)
    chk.rule = ('E-input: per entity of packed families K (kinds, optional kinds, ordered pairs of 12 core kinds) and I (inheritance), the default '
                'population plus ALL single deviations: every literal alternative at every attribute, every gap filler in every token gap, '
                'forward references, id patterns, external mapping, header alternatives; each run through read-write-read-write on the real STEPfile; '
                'state = distinct file text, transition = one 2-cycle round trip')
    chk.assumptions = ['p21ref (reference Part 21 parser written from doc/iso-10303-21--2002.bnf) is correct',
                       'comments are not required to survive a round trip', 'compiler and shared-library build are trusted']
    seen_texts = set()
    for fam in schemas_for(args.tier):
        try:
            lib = build.schema_lib(fam.express(), 'plain')
        except build.GenError as e:
            chk.violation('build/%s/%s' % (fam.name, e.stage), 'family schema %s does not build: %s' % (fam.name, e.out[-400:].decode('latin1')), {'family': fam.name})
            continue
        sp = Space(fam, args.tier)
        # defaults first: an entity whose default population already fails is reported once and
        # its deviations are not explored (a deviation from a failing base says nothing new)
        allcases = {}
        for e in sp.entities():
            cs = list(sp.cases(e.name))
            for c in cs:
                c['family'] = fam.name
            if cs:
                allcases[e.name] = cs
        dcases = [cs[0] for cs in allcases.values()]
        dres = p21run.run_many(lib, dcases, chunksize=4)
        bad = set()
        for c, r in zip(dcases, dres):
            if compare(fam, c, r):
                bad.add(c['ent'])
        cases = []
        for en, cs in allcases.items():
            for c in (cs[:1] if en in bad else cs):
                if (c['text'], c.get('prior')) in seen_texts:
                    continue
                seen_texts.add((c['text'], c.get('prior')))
                cases.append(c)
        chk.extra.setdefault('entities_with_failing_default', {})[fam.name] = sorted(bad)
        for c in sp.header_cases():
            c['family'] = fam.name
            cases.append(c)
        # two-deviation cases are explored only from single deviations that themselves pass (bounded-deviation discipline)
        singles = [c for c in cases if 'two' not in c]
        doubles = [c for c in cases if 'two' in c]
        sres = p21run.run_many(lib, singles, chunksize=16)
        failing = set()
        for c, r in zip(singles, sres):
            if c['site'] == 'value' and compare(fam, c, r):
                failing.add((c['ent'], c.get('attr', 0), c['detail']))
        keep = []
        for c in doubles:
            if c['site'] == 'lex':
                if (c['ent'], 0, c['two']) in failing:
                    continue
            else:
                if (c['ent'], 0, c['detail']) in failing or (c['ent'], 1, c['two']) in failing:
                    continue
            keep.append(c)
        dres = p21run.run_many(lib, keep, chunksize=16) if keep else []
        cases = singles + keep
        results = sres + dres
        chk.extra.setdefault('two_deviation_cases', {})[fam.name] = {'generated': len(doubles), 'explored': len(keep)}
        crashed_defaults = 0
        iso = {}
        for c, r in zip(cases, results):
            if 'crash' in r:
                k0 = (c['ent'] if c['site'] != 'lex' else c['ent'], tuple(r['crash']))
                if k0 not in iso:
                    iso[k0] = isolate_crash(fam, c)
                if iso[k0]:
                    r['crash'] = list(iso[k0])
        for c, r in zip(cases, results):
            chk.count(states=1, transitions=1)
            chk.cls(c['site'])
            diffs = compare(fam, c, r)
            if not diffs:
                chk.outcome('ok')
                if c['site'] != 'default':
                    chk.sample({'entity': c['ent'], 'site': c['site'], 'detail': c['detail'], 'outcome': 'ok'}, maxn=6)
            for kp, what in diffs:
                chk.outcome(kp.split('/')[0])
                chk.violation('%s/%s' % (PID, kp), what, dict((k, v) for k, v in c.items()))
        # p21read (the reference tool) on every default population: exit status 0
        defaults = [c for c in cases if c.get('default') and c['ent'] not in bad]
        rcs = common.tmap(lambda c: p21run.p21read(lib, c['text'])[0], defaults)
        for c, rc in zip(defaults, rcs):
            chk.count(transitions=1)
            chk.outcome('p21read-exit-%s' % rc)
            if rc != 0:
                kind = c['ent'][2:] if c['ent'].startswith(('e_', 'o_', 'p_')) else c['ent']
                chk.violation('%s/p21read-exit/%s/%s' % (PID, kind, rc), 'p21read exits %s on the default population of %s' % (rc, c['ent']), dict(c))
        chk.bounds[fam.name] = {'entities': len(sp.entities()), 'cases': len(cases), 'deviations': 1}
    if chk.classes.get('value', 0) == 0 or chk.classes.get('lex', 0) == 0 or chk.outcomes.get('ok', 0) == 0:
        chk.harness_error('vacuous exploration: %s %s' % (dict(chk.classes), dict(chk.outcomes)))
    sys.exit(chk.finish())


if __name__ == '__main__':
    main()
