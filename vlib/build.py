"""Builds /repo's *current working tree* into /verif/build/<variant> and builds schema libraries
and drivers against it.  Everything is keyed so that stale code can never be served."""
import os, sys, fcntl, glob, shutil, subprocess, time, tempfile, re
from . import common
from .common import REPO, BUILD, ROOT, sha, run, NCPU

GUARD = '-DSTEPCODE_VERIF'
VARIANTS = {
    'plain': {'c': GUARD + ' -O1 -g', 'type': 'Debug'},
    'san': {'c': GUARD + ' -O1 -g -fsanitize=address,undefined -fno-omit-frame-pointer -fno-sanitize-recover=undefined', 'type': 'Debug'},
}
GEN_FLAGS = {
    'plain': ['-O0', '-g0', '-fPIC', '-w', GUARD],
    'san': ['-O0', '-g1', '-fPIC', '-w', GUARD, '-fsanitize=address,undefined', '-fno-omit-frame-pointer', '-fno-sanitize-recover=undefined'],
}
DRV_FLAGS = {
    'plain': ['-O1', '-g', '-w', GUARD, '-fno-access-control'],
    'san': ['-O1', '-g', '-w', GUARD, '-fno-access-control', '-fsanitize=address,undefined', '-fno-omit-frame-pointer', '-fno-sanitize-recover=undefined'],
}


class Lock:
    def __init__(self, name):
        os.makedirs(BUILD, exist_ok=True)
        self.path = os.path.join(BUILD, '.lock-' + name)

    def __enter__(self):
        self.f = open(self.path, 'w')
        fcntl.flock(self.f, fcntl.LOCK_EX)
        return self

    def __exit__(self, *a):
        fcntl.flock(self.f, fcntl.LOCK_UN)
        self.f.close()


def _sh(cmd, cwd=None, what='build step'):
    p = subprocess.run(cmd, cwd=cwd, stdout=subprocess.PIPE, stderr=subprocess.STDOUT,
                       env=dict(os.environ, LC_ALL='C'))
    if p.returncode != 0:
        sys.stderr.write(p.stdout.decode('latin1')[-6000:])
        raise SystemExit('HARNESS: %s failed (%s)' % (what, ' '.join(cmd[:4])))
    return p.stdout


_ensured = {}


def ensure(variant='plain'):
    """Configure (once) and build (always; ninja no-op when nothing changed) the working tree."""
    if variant in _ensured:
        return _ensured[variant]
    v = VARIANTS[variant]
    d = os.path.join(BUILD, variant)
    with Lock(variant):
        if not os.path.exists(os.path.join(d, 'build.ninja')):
            _sh(['cmake', '-G', 'Ninja', '-S', REPO, '-B', d, '-DSC_BUILD_SCHEMAS=', '-DSC_ENABLE_TESTING=OFF',
                 '-DCMAKE_BUILD_TYPE=' + v['type'], '-DCMAKE_C_FLAGS=' + v['c'], '-DCMAKE_CXX_FLAGS=' + v['c']],
                what='cmake configure ' + variant)
        _sh(['cmake', '--build', d], what='cmake build ' + variant)
    _ensured[variant] = d
    return d


def tool(name, variant='plain'):
    return os.path.join(ensure(variant), 'bin', name)


def libdir(variant='plain'):
    return os.path.join(ensure(variant), 'lib')


def ensure_scanner():
    """schema_scanner built stand-alone from the working tree exactly as schemaScanner.cmake does."""
    if 'scanner' in _ensured:
        return _ensured['scanner']
    plain = ensure('plain')
    d = os.path.join(BUILD, 'scanner')
    with Lock('scanner'):
        if not os.path.exists(os.path.join(d, 'build.ninja')):
            os.makedirs(d, exist_ok=True)
            cache = os.path.join(d, 'initial_scanner_cache.cmake')
            with open(cache, 'w') as f:
                f.write('set(SC_ROOT "%s" CACHE STRING "root dir")\nset(SC_BUILDDIR "%s" CACHE PATH "build dir")\n'
                        'set(CALLED_FROM "STEPCODE_CMAKELISTS" CACHE STRING "verification")\n'
                        'set(CMAKE_BUILD_TYPE "Debug" CACHE STRING "build type")\n' % (REPO, d))
            os.makedirs(os.path.join(d, 'include'), exist_ok=True)
            _sh(['cmake', '-C', cache, os.path.join(REPO, 'cmake/schema_scanner'), '-G', 'Ninja'], cwd=d, what='scanner configure')
        # generated config headers come from the plain build
        for h in glob.glob(os.path.join(plain, 'include', '*.h')):
            shutil.copy(h, os.path.join(d, 'include'))
        _sh(['cmake', '--build', d], what='scanner build')
    exe = None
    for c in (os.path.join(d, 'bin', 'schema_scanner'), os.path.join(d, 'schema_scanner')):
        if os.path.exists(c):
            exe = c
    if not exe:
        raise SystemExit('HARNESS: schema_scanner binary not found')
    _ensured['scanner'] = exe
    return exe


def _incs(variant):
    b = ensure(variant)
    return ['-I' + os.path.join(REPO, 'include'), '-I' + os.path.join(b, 'include')] + \
           ['-I' + os.path.join(REPO, 'src', x) for x in ('cldai', 'cleditor', 'clutils', 'clstepcore', 'cllazyfile', 'cllazyfile/judy/src')]


_hh = {}


def headers_hash():
    if 'h' not in _hh:
        parts = []
        for base in ('include', 'src/cldai', 'src/cleditor', 'src/clutils', 'src/clstepcore', 'src/cllazyfile'):
            for root, dirs, files in os.walk(os.path.join(REPO, base)):
                dirs.sort()
                for fn in sorted(files):
                    if fn.endswith(('.h', '.hpp', '.in')):
                        p = os.path.join(root, fn)
                        with open(p, 'rb') as f:
                            parts.append(p.encode() + b'\0' + f.read())
        _hh['h'] = sha(*parts)
    return _hh['h']


LIBS = ['-lstepeditor', '-lstepcore', '-lstepdai', '-lsteputils']


def driver(name, variant='plain', lazy=False, extra=()):
    """Compile /verif/drivers/<name>.cc once per (source, headers, variant).  Drivers dlopen the
    schema library given on their command line, so they are independent of any schema."""
    b = ensure(variant)      # always: the driver runs against the libraries of the working tree
    src = os.path.join(ROOT, 'drivers', name + '.cc')
    with open(src, 'rb') as f:
        s = f.read()
    common_h = os.path.join(ROOT, 'drivers', 'drv_common.h')
    ch = open(common_h, 'rb').read() if os.path.exists(common_h) else b''
    key = sha(s, ch, headers_hash(), variant, ' '.join(DRV_FLAGS[variant]))[:16]
    d = os.path.join(BUILD, 'drivers', variant)
    exe = os.path.join(d, '%s-%s' % (name, key))
    if os.path.exists(exe):
        return exe
    with Lock('drv-' + name + variant):
        if os.path.exists(exe):
            return exe
        os.makedirs(d, exist_ok=True)
        for old in glob.glob(os.path.join(d, name + '-*')):
            os.remove(old)
        libs = list(LIBS)
        if lazy:
            libs = ['-lsteplazyfile'] + libs
        tmp = exe + '.tmp%d' % os.getpid()
        _sh(['g++', '-std=c++11'] + DRV_FLAGS[variant] + _incs(variant) + ['-I' + os.path.join(ROOT, 'drivers'), src, '-o', tmp,
             '-L' + os.path.join(b, 'lib'), '-Wl,-rpath,' + os.path.join(b, 'lib'), '-rdynamic'] + libs + ['-ldl'] + list(extra),
            what='driver ' + name)
        os.rename(tmp, exe)
    return exe


def _compile_one(args):
    cmd, = args
    p = subprocess.run(cmd, stdout=subprocess.PIPE, stderr=subprocess.STDOUT)
    return p.returncode, p.stdout


class SchemaLib:
    def __init__(self, d, variant, schema_names):
        self.dir = d
        self.variant = variant
        self.so = os.path.join(d, 'libschema.so')
        self.p21read = os.path.join(d, 'p21read')
        self.lazy_test = os.path.join(d, 'lazy_test')
        self.gen = os.path.join(d, 'gen')
        self.names = schema_names


class GenError(Exception):
    def __init__(self, stage, rc, out):
        Exception.__init__(self, '%s failed rc=%s' % (stage, rc))
        self.stage, self.rc, self.out = stage, rc, out


def schema_lib(exp_text, variant='plain', tools=True, name='s'):
    """exp2cxx (from the working tree) + compile + link.  Returns SchemaLib; raises GenError
    when the generator fails or its output does not compile (that is a finding for C02)."""
    b = ensure(variant)
    exp2cxx = os.path.join(ensure('plain'), 'bin', 'exp2cxx')
    os.makedirs(os.path.join(BUILD, 'schemas'), exist_ok=True)
    tmp = tempfile.mkdtemp(prefix='gen-', dir=os.path.join(BUILD, 'schemas'))
    try:
        gen = os.path.join(tmp, 'gen')
        os.makedirs(gen)
        expf = os.path.join(gen, name + '.exp')
        with open(expf, 'w') as f:
            f.write(exp_text)
        rc, out, err = run([exp2cxx, name + '.exp'], cwd=gen, timeout=300, merge=True)
        if rc != 0:
            raise GenError('exp2cxx', rc, out)
        srcs = []
        for root, dirs, files in os.walk(gen):
            dirs.sort()
            for fn in sorted(files):
                if fn.endswith('.cc') and '_unity_' not in fn:
                    srcs.append(os.path.join(root, fn))
        parts = []
        for root, dirs, files in os.walk(gen):
            dirs.sort()
            for fn in sorted(files):
                p = os.path.join(root, fn)
                with open(p, 'rb') as f:
                    parts.append(os.path.relpath(p, gen).encode() + b'\0' + f.read())
        p21src = os.path.join(REPO, 'src/test/p21read/p21read.cc')
        lzsrc = os.path.join(REPO, 'src/cllazyfile/lazy_test.cc')
        key = sha(sha(*parts), headers_hash(), variant, ' '.join(GEN_FLAGS[variant]), open(p21src, 'rb').read(),
                  open(lzsrc, 'rb').read(), str(tools))[:20]
        final = os.path.join(BUILD, 'schemas', variant + '-' + key)
        names = sorted(re.findall(r'^Sdai([A-Z0-9_]+)\.init\.cc$', '\n'.join(os.listdir(gen)), re.M))
        if os.path.exists(os.path.join(final, 'ok')):
            return SchemaLib(final, variant, names)
        with Lock('schema-' + key):
            if os.path.exists(os.path.join(final, 'ok')):
                return SchemaLib(final, variant, names)
            objs = []
            jobs = []
            incs = _incs(variant) + ['-I' + gen]
            for s in srcs:
                o = s[:-3] + '.o'
                objs.append(o)
                jobs.append((['g++', '-std=c++11'] + GEN_FLAGS[variant] + incs + ['-c', s, '-o', o],))
            res = common.pmap(_compile_one, jobs)
            for (rc, out), j in zip(res, jobs):
                if rc != 0:
                    raise GenError('compile', rc, out)
            so = os.path.join(tmp, 'libschema.so')
            L = ['-L' + os.path.join(b, 'lib'), '-Wl,-rpath,' + os.path.join(b, 'lib')]
            sanl = ['-fsanitize=address,undefined'] if variant == 'san' else []
            rc, out, _ = run(['g++', '-shared', '-Wl,-soname,libschema.so', '-o', so] + sanl + objs + L + LIBS, merge=True, timeout=600)
            if rc != 0:
                raise GenError('link', rc, out)
            if tools:
                flags = DRV_FLAGS[variant]
                jobs = []
                pdir = os.path.join(REPO, 'src/test/p21read')
                ldir = os.path.join(REPO, 'src/cllazyfile')
                rp = ['-Wl,-rpath,$ORIGIN']
                jobs.append((['g++', '-std=c++11'] + flags + incs + [p21src, os.path.join(pdir, 'sc_benchmark.cc'), '-o', os.path.join(tmp, 'p21read'),
                              so] + L + rp + LIBS,))
                jobs.append((['g++', '-std=c++11'] + flags + incs + ['-I' + ldir, lzsrc, os.path.join(ldir, 'sc_benchmark.cc'), '-o', os.path.join(tmp, 'lazy_test'),
                              so] + L + rp + ['-lsteplazyfile'] + LIBS,))
                res = common.pmap(_compile_one, jobs)
                for (rc, out), j in zip(res, jobs):
                    if rc != 0:
                        raise GenError('link-tools', rc, out)
            for o in objs:
                os.remove(o)
            open(os.path.join(tmp, 'ok'), 'w').close()
            if os.path.exists(final):
                shutil.rmtree(final)
            os.rename(tmp, final)
            tmp = None
        return SchemaLib(final, variant, names)
    finally:
        if tmp and os.path.exists(tmp):
            shutil.rmtree(tmp, ignore_errors=True)


def prune_schema_cache(keep_days=0, max_entries=60):
    d = os.path.join(BUILD, 'schemas')
    if not os.path.isdir(d):
        return
    ents = sorted((os.path.getmtime(os.path.join(d, e)), e) for e in os.listdir(d))
    for _, e in ents[:-max_entries]:
        shutil.rmtree(os.path.join(d, e), ignore_errors=True)


def shim(name='heapshift'):
    """LD_PRELOAD helper libraries under /verif/drivers/<name>.c"""
    src = os.path.join(ROOT, 'drivers', name + '.c')
    key = sha(open(src, 'rb').read())[:12]
    d = os.path.join(BUILD, 'drivers')
    os.makedirs(d, exist_ok=True)
    so = os.path.join(d, '%s-%s.so' % (name, key))
    if not os.path.exists(so):
        with Lock('shim-' + name):
            if not os.path.exists(so):
                _sh(['gcc', '-shared', '-fPIC', '-O1', '-o', so + '.tmp', src], what='shim ' + name)
                os.rename(so + '.tmp', so)
    return so
