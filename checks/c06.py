#!/usr/bin/python3
"""C06 - EXPRESS tools are memory-safe and terminate on any input.
E-input on ASan+UBSan builds of check-express, exppp, exp2cxx, exp2python: valid schemas (generated and
all shipped), all single-fault mutants (C04), byte-level mutants at every offset of small schemas,
truncation at every offset, pathological lexical shapes at boundary sizes."""
import sys, os, json, re, time
sys.path.insert(0, '/verif')
from vlib import common, build, gfam, exptools

PID = 'C06'
TOOLS = exptools.TOOLS
BYTES = [b'\x00', b'\x80', b'\xff', b"'", b'"', b'(', b'*', b'\n', b'%', b'\\', b'_', b'{']


def run_one(case):
    text = case.get('text')
    if text is None:
        with open(case['path'], 'rb') as f:
            text = f.read()
    elif isinstance(text, str):
        text = text.encode('latin1')
    t0 = time.time()
    r = exptools.run_tool(case['tool'], text, variant='san', args=case.get('args', ()), timeout=case.get('timeout', 60))
    dt = time.time() - t0
    out = {'rc': r.rc, 't': dt, 'errors': r.errors}
    if r.san:
        out['san'] = list(r.san)
        out['log'] = r.out[-1800:].decode('latin1')
    elif r.rc is None:
        out['san'] = ['hang', 'timeout']
    elif r.rc < 0 or r.rc > 125 or r.rc in (98, 99):
        import signal as _s
        nm = 'exit%d' % r.rc
        if r.rc < 0:
            try:
                nm = _s.Signals(-r.rc).name
            except ValueError:
                pass
        site = 'unknown'
        m = re.search(rb'([\w./-]+):(\d+): [^\n]*Assertion', r.out)
        if m:
            site = 'assert@%s:%s' % (os.path.basename(m.group(1).decode()), m.group(2).decode())
        if site == 'unknown' and r.rc < 0:
            site = exptools.crash_site(case['tool'], text, args=case.get('args', ()))      # the sanitizer is silent (stack exhaustion, abort()): ask gdb where
        out['san'] = [nm, site]
        out['log'] = r.out[-1800:].decode('latin1')
    elif r.rc != 0 and not r.errors and b'rror' not in r.out and b'usage' not in r.out:
        out['nodiag'] = True
        out['log'] = r.out[-600:].decode('latin1')
    return out


def pathological():
    """(cls, size, text) - lexical shapes at boundary sizes"""
    H = 'SCHEMA p;\n'
    F = 'END_SCHEMA;\n'
    E = 'ENTITY a; x : INTEGER; END_ENTITY;\n'
    for n in (255, 256, 257, 4000, 10000, 100000):
        yield 'tail-remark', n, H + '-- ' + 'r' * n + '\n' + E + F
        yield 'embedded-remark', n, H + '(* ' + 'r' * n + ' *)\n' + E + F
        yield 'string-literal', n, H + "CONSTANT c : STRING := '" + 's' * n + "'; END_CONSTANT;\n" + F
        yield 'encoded-string', n, H + 'CONSTANT c : STRING := "' + '00000041' * (n // 8) + '"; END_CONSTANT;\n' + F
        yield 'binary-literal', n, H + 'CONSTANT c : BINARY := %' + '01' * (n // 2) + '; END_CONSTANT;\n' + F
        yield 'identifier', n, H + 'ENTITY ' + 'i' * n + '; x : INTEGER; END_ENTITY;\n' + F
        yield 'integer-literal', n, H + 'CONSTANT c : INTEGER := ' + '1' * n + '; END_CONSTANT;\n' + F
        yield 'real-literal', n, H + 'CONSTANT c : REAL := 1.' + '5' * n + 'E1; END_CONSTANT;\n' + F
        yield 'where-label', n, H + 'ENTITY a; x : INTEGER;\n WHERE ' + 'w' * n + ' : x > 0;\nEND_ENTITY;\n' + F
        yield 'many-attributes', n, H + 'ENTITY a;\n' + ''.join(' x%d : INTEGER;\n' % k for k in range(n // 10)) + 'END_ENTITY;\n' + F
        yield 'many-enum-items', n, H + 'TYPE e = ENUMERATION OF (' + ', '.join('i%d' % k for k in range(max(2, n // 10))) + '); END_TYPE;\n' + F
        yield 'long-expression', n, H + 'ENTITY a; x : INTEGER;\n DERIVE y : INTEGER := ' + ' + '.join(['x'] * max(2, n // 4)) + ';\nEND_ENTITY;\n' + F
    # what the generators print into fixed-size buffers: the text of one WHERE rule / DERIVE initialiser / algorithm around the buffer sizes
    for n in (50000, 70000, 99990, 100000, 100010, 120000, 250000, 1000000):
        lit = "'" + 's' * n + "'"
        yield 'where-string', n, H + 'ENTITY a; s : STRING;\n WHERE wr1 : s <> ' + lit + ';\nEND_ENTITY;\n' + F
        yield 'where-two-strings', n, H + 'ENTITY a; s : STRING;\n WHERE wr1 : (s <> ' + lit + ') AND (s <> ' + lit + ');\nEND_ENTITY;\n' + F
        yield 'derive-string', n, H + 'ENTITY a; s : STRING;\n DERIVE d : STRING := ' + lit + ';\nEND_ENTITY;\n' + F
        yield 'function-string', n, H + 'FUNCTION f (x : STRING) : STRING;\n  RETURN (' + lit + ');\nEND_FUNCTION;\nENTITY a; s : STRING;\n DERIVE d : STRING := f (s);\nEND_ENTITY;\n' + F
        yield 'rule-string', n, H + E + 'RULE r FOR (a);\n WHERE wr1 : SIZEOF (QUERY (t <* a | ' + lit + " = 'x')) = 0;\nEND_RULE;\n" + F
        yield 'long-where', n, H + 'ENTITY a; x : INTEGER;\n WHERE wr1 : ' + ' + '.join(['x'] * max(2, n // 4)) + ' > 0;\nEND_ENTITY;\n' + F
    for d in (2, 19, 20, 21, 100):
        yield 'nested-remarks', d, H + '(* ' * d + 'x' + ' *)' * d + '\n' + E + F
        body = ''.join('FUNCTION f%d (a : INTEGER) : INTEGER;\n' % k for k in range(d)) + ''.join('RETURN (a);\nEND_FUNCTION;\n' for k in range(d))
        yield 'nested-scopes', d, H + body + F
        yield 'nested-statements', d, H + 'FUNCTION f (a : INTEGER) : INTEGER;\n' + 'IF a > 0 THEN\n' * d + 'RETURN (a);\n' + 'END_IF;\n' * d + 'RETURN (0);\nEND_FUNCTION;\n' + F
        yield 'nested-aggregate-types', d, H + 'ENTITY a; x : ' + 'LIST OF ' * d + 'INTEGER; END_ENTITY;\n' + F
        yield 'nested-queries', d, H + 'ENTITY a; x : LIST OF INTEGER;\n WHERE wr1 : ' + 'SIZEOF (QUERY (q <* x | ' * d + 'TRUE' + ')) = 0' * d + ';\nEND_ENTITY;\n' + F
    for d in (100, 1000, 10000):
        yield 'parentheses', d, H + 'CONSTANT c : INTEGER := ' + '(' * d + '1' + ')' * d + '; END_CONSTANT;\n' + F
        yield 'unary-minus', d, H + 'CONSTANT c : INTEGER := ' + '-' * d + '1; END_CONSTANT;\n' + F
        yield 'subtype-chain', d, H + 'ENTITY e0; END_ENTITY;\n' + ''.join('ENTITY e%d SUBTYPE OF (e%d); END_ENTITY;\n' % (k + 1, k) for k in range(d // 10)) + F
    for n in (99, 100, 101, 1000):
        yield 'many-errors', n, H + ''.join('ENTITY a%d; x : undefined_type_%d; END_ENTITY;\n' % (k, k) for k in range(n)) + F
        yield 'many-lexical-errors', n, H + E + ('@ ' * n) + '\n' + F
    # every built-in function and procedure called with 0..3 arguments (the resolver special-cases some of them)
    for fn in ('ABS', 'ACOS', 'ASIN', 'ATAN', 'BLENGTH', 'COS', 'EXISTS', 'EXP', 'FORMAT', 'HIBOUND', 'HIINDEX', 'LENGTH', 'LOBOUND', 'LOG', 'LOG2', 'LOG10', 'LOINDEX', 'NVL', 'ODD',
               'ROLESOF', 'SIN', 'SIZEOF', 'SQRT', 'TAN', 'TYPEOF', 'USEDIN', 'VALUE', 'VALUE_IN', 'VALUE_UNIQUE'):
        for n in range(4):
            yield 'builtin-argcount', n, H + 'ENTITY a; x : OPTIONAL REAL; l : LIST OF REAL;\n DERIVE d : REAL := ' + fn + ((' (' + ', '.join(['x', 'l', '1.0'][:n]) + ')') if n else '') + ';\nEND_ENTITY;\n' + F + '-- ' + fn + '\n'
    for pr in ('INSERT', 'REMOVE'):
        for n in range(4):
            yield 'builtin-argcount', n, H + 'PROCEDURE q (VAR l : LIST OF REAL; x : REAL);\n  ' + pr + ((' (' + ', '.join(['l', 'x', '0'][:n]) + ')') if n else '') + ';\nEND_PROCEDURE;\n' + F + '-- ' + pr + '\n'
    # CASE labels of every expression form
    for k, lab in enumerate(('1', '-1', '+1', '1 + 1', '(1)', "'a'", 'TRUE', 'NOT TRUE', '1.5', '-1.5', '[1]', 'p', '-p', 'ff (1)', 'SELF', '?', 'p.q', '1, -2', 'p * 2 - 1')):
        yield 'case-label', k, H + 'FUNCTION ff (p : INTEGER) : REAL;\n  CASE p OF\n    ' + lab + ' : RETURN (1.0);\n    OTHERWISE : RETURN (0.0);\n  END_CASE;\nEND_FUNCTION;\n' + F
    # identifiers ending in an underscore (legal), in every declaration kind
    yield 'trailing-underscore', 0, ('SCHEMA under_;\nTYPE kind_ = ENUMERATION OF (big_, small_); END_TYPE;\nTYPE num_ = INTEGER; END_TYPE;\nTYPE pick_ = SELECT (part_, num_); END_TYPE;\n'
                                     'ENTITY part_; x_ : INTEGER; k_ : kind_; p_ : OPTIONAL pick_;\n DERIVE d_ : INTEGER := x_ + 1;\n WHERE w_ : x_ > 0;\nEND_ENTITY;\n'
                                     'ENTITY sub_ SUBTYPE OF (part_); END_ENTITY;\nFUNCTION f_ (a_ : INTEGER) : INTEGER; RETURN (a_); END_FUNCTION;\nEND_SCHEMA;\n')
    yield 'trailing-underscore', 1, 'SCHEMA a_;\nENTITY b__; c___ : INTEGER; END_ENTITY;\nEND_SCHEMA;\n'
    # an index applied to a value of every kind of type (only aggregates, strings and binaries can be indexed)
    for k, ty in enumerate(('INTEGER', 'REAL', 'STRING', 'BINARY', 'BOOLEAN', 'LIST OF INTEGER', 'ARRAY [1:3] OF REAL', 'a', 'en', 'sel_ab', 'sel_la', 'sel_ll', 'sel_nest', 'GENERIC_ENTITY'[:0] or 'lst')):
        yield 'index-of', k, (H + 'ENTITY a; v : INTEGER; END_ENTITY;\nENTITY b; w : INTEGER; END_ENTITY;\nTYPE en = ENUMERATION OF (e1, e2); END_TYPE;\nTYPE lst = LIST OF INTEGER; END_TYPE;\n'
                              'TYPE sel_ab = SELECT (a, b); END_TYPE;\nTYPE sel_la = SELECT (lst, a); END_TYPE;\nTYPE sel_ll = SELECT (lst, lst2); END_TYPE;\nTYPE lst2 = LIST OF REAL; END_TYPE;\n'
                              'TYPE sel_nest = SELECT (sel_ab, en); END_TYPE;\n'
                              'ENTITY c; x : ' + ty + ';\n DERIVE d : LOGICAL := x[1] :<>: x[2];\n WHERE w1 : x[1] = x[2]; w2 : SIZEOF (x[1:2]) > 0;\nEND_ENTITY;\n' + F)
    yield 'no-final-newline', 0, H + E + 'END_SCHEMA;'
    yield 'crlf', 0, (H + E + F).replace('\n', '\r\n')
    yield 'empty-file', 0, ''
    yield 'only-remark', 0, '(* nothing *)'
    yield 'unterminated-remark', 0, H + '(* never closed\n' + E + F
    yield 'unterminated-string', 0, H + "CONSTANT c : STRING := 'abc; END_CONSTANT;\n" + F
    yield 'nul-only', 0, '\x00' * 100
    yield 'bom', 0, '\xef\xbb\xbf' + H + E + F


def key_of(tool, case, res):
    site = res['san'][1]
    return 'crash/%s/%s' % (res['san'][0], site if site != 'unknown' else tool + ':unknown')


def replay(path):
    obj = json.load(open(path))
    case = obj['case']
    if case.get('gen'):
        for cls, n, text in pathological():
            if [cls, n] == case['gen']:
                case['text'] = text
    r = run_one(case)
    print(case['tool'], case.get('cls'), case.get('detail'), '->', r.get('rc'), r.get('san'), '%.2fs' % r['t'])
    print(r.get('log', '')[-1500:])
    return 1 if (r.get('san') or r.get('nodiag')) else 0


def main():
    args = common.parse_args(sys.argv[1:])
    if args.replay:
        sys.exit(replay(args.replay))
    chk = common.Check(PID, args.tier, deadline_s=args.deadline)
    build.ensure('san')
    chk.rule = ('ASan+UBSan builds of the four tools on: generated valid schemas + ALL shipped schemas; all single-fault mutants of C04; every byte of 3 small schemas replaced '
                'by each of %d bytes, deleted, duplicated; truncation at every byte offset; pathological shapes (remarks, literals, identifiers, labels of 255..100000 chars, '
                'scopes/remarks/statements nested 2..100 deep, parentheses to 10000, 99..1000 errors, CRLF, no final newline, NUL, BOM); exppp also at -l 10 and -l 99999; '
                'state = (input, tool configuration)' % len(BYTES))
    chk.assumptions = ['gcc 12 ASan/UBSan; leaks not judged', 'bounded time = 60 s (120 s for inputs > 50 kB), re-run alone before a hang is reported']
    cases = []
    valid = gfam.valid_schemas(args.tier)
    for name, text in valid:
        for t in TOOLS:
            cases.append({'tool': t, 'cls': 'valid', 'detail': name, 'text': text})
        cases.append({'tool': 'exppp', 'cls': 'valid', 'detail': name + ' -l 10', 'text': text, 'args': ['-l', '10']})
        cases.append({'tool': 'exppp', 'cls': 'valid', 'detail': name + ' -l 99999', 'text': text, 'args': ['-l', '99999']})
    for name, text, ok in gfam.interface_family(args.tier):
        for t in TOOLS:
            cases.append({'tool': t, 'cls': 'interface' if ok else 'interface-invalid', 'detail': name, 'text': text})
    for name, text, ok, planted in gfam.visibility_family():
        for t in TOOLS:
            cases.append({'tool': t, 'cls': 'visibility', 'detail': name, 'text': text})
    for name, text, ok in gfam.interface_paths():
        for t in TOOLS:
            cases.append({'tool': t, 'cls': 'interface-paths', 'detail': name, 'text': text})
    for name, text, planted in gfam.duplicate_kinds():
        for t in TOOLS:
            cases.append({'tool': t, 'cls': 'duplicate-kinds', 'detail': name, 'text': text})
    for kind in ('select', 'subtype'):
        for name, text, ok in gfam.reference_digraphs(kind, args.tier):
            if args.tier == 'quick' and not name.endswith(('orderabc', 'ordercba')):
                continue
            for t in TOOLS:
                cases.append({'tool': t, 'cls': 'reference-digraphs', 'detail': name, 'text': text, 'timeout': 20})
    for name, text, planted in gfam.cyclic_subtypes():
        for t in TOOLS:
            cases.append({'tool': t, 'cls': 'cyclic-subtypes', 'detail': name, 'text': text})
    for c in gfam.diagnostic_catalogue():
        if 'extra_files' not in c:
            for t in TOOLS:
                cases.append({'tool': t, 'cls': 'diagnostic-path', 'detail': c['cls'] + '/' + c['detail'], 'text': c['text']})
    for name, path in gfam.shipped():
        big = os.path.getsize(path) > 400000
        for t in TOOLS:
            if args.tier == 'quick' and big and t != 'check-express' and 'ap203/' not in name:
                continue
            cases.append({'tool': t, 'cls': 'shipped', 'detail': name, 'path': path, 'timeout': 600})
    for name, text in valid:
        for cls, detail, planted, mt in gfam.semantic_mutants(name, text):
            if mt:
                for t in TOOLS:
                    cases.append({'tool': t, 'cls': 'mutant:' + cls, 'detail': '%s/%s' % (name, detail), 'text': mt})
        if name.startswith('m_') or name in ('multi',) or (name == 'ks' and args.tier == 'thorough'):
            for cls, detail, must, mt in gfam.syntax_mutants(name, text, 1 if args.tier == 'thorough' else 2):
                for t in TOOLS:
                    cases.append({'tool': t, 'cls': 'mutant:' + cls, 'detail': '%s/%s' % (name, detail), 'text': mt})
    # byte-level
    for name in ('m_strlit', 'm_remarks', 'm_derive') + (('m_func', 'm_select', 'multi') if args.tier == 'thorough' else ()):
        text = dict(valid)[name].encode('latin1')
        for off in range(len(text)):
            muts = [text[:off] + b + text[off + 1:] for b in BYTES] + [text[:off] + text[off + 1:], text[:off] + text[off:off + 1] + text[off:], text[:off]]
            for k, m in enumerate(muts):
                for t in (TOOLS if args.tier == 'thorough' else ('check-express', 'exppp')):
                    cases.append({'tool': t, 'cls': 'byte-level', 'detail': '%s@%d#%d' % (name, off, k), 'text': m})
    for cls, n, text in pathological():
        for t in TOOLS:
            cases.append({'tool': t, 'cls': 'shape:' + cls, 'detail': str(n), 'text': text, 'gen': [cls, n], 'timeout': 120})
    seen = set()
    uniq = []
    for c in cases:
        k = (c['tool'], tuple(c.get('args', ())), c.get('text') if c.get('text') is not None else c.get('path'))
        if k in seen:
            continue
        seen.add(k)
        uniq.append(c)
    cases = uniq
    results = common.pmap(run_one, cases, chunksize=4)
    slow = []
    # no answer within the first limit: run those again, together, with a limit five times as long, before calling anything a hang
    hung = [i for i, r in enumerate(results) if r.get('san') and r['san'][0] == 'hang']
    again = dict(zip(hung, common.pmap(run_one, [dict(cases[i], timeout=300 if cases[i].get('timeout', 60) <= 60 else 600) for i in hung], chunksize=1))) if hung else {}
    for ci, (c, r) in enumerate(zip(cases, results)):
        chk.count(states=1, transitions=1)
        chk.cls(c['cls'].split(':')[0] + '/' + c['tool'])
        small = dict((k, v) for k, v in c.items() if k != 'text' or (v is not None and len(v) < 20000))
        if isinstance(small.get('text'), bytes):
            small['text'] = small['text'].decode('latin1')
        if r.get('san'):
            if r['san'][0] == 'hang':
                r2 = again[ci]
                if not r2.get('san'):
                    chk.outcome('slow')
                    slow.append((c['tool'], c['cls'], c['detail'], round(r2['t'], 1)))
                    continue
                r = r2
            chk.outcome('crash')
            chk.violation('%s/%s' % (PID, key_of(c['tool'], c, r)), '%s: %s in %s on %s %s' % (c['tool'], r['san'][0], r['san'][1], c['cls'], c['detail']), dict(small, log=r.get('log', '')))
        elif r.get('nodiag'):
            chk.outcome('nonzero-without-diagnostic')
            chk.violation('%s/exit-without-diagnostic/%s/%s' % (PID, c['tool'], r['rc']), '%s exits %s without any diagnostic on %s %s' % (c['tool'], r['rc'], c['cls'], c['detail']), dict(small, log=r.get('log', '')))
        else:
            chk.outcome('exit-%s' % ('0' if r['rc'] == 0 else 'error'))
            if r['t'] > 20:
                slow.append((c['tool'], c['cls'], c['detail'], round(r['t'], 1)))
    # bounded time: doubling rule on three shapes
    times = {}
    for cls, mk in (('remark', lambda n: 'SCHEMA p;\n(* ' + 'r' * n + ' *)\nEND_SCHEMA;\n'), ('entities', lambda n: 'SCHEMA p;\n' + ''.join('ENTITY e%d; x : INTEGER; END_ENTITY;\n' % k for k in range(n // 40)) + 'END_SCHEMA;\n'),
                    ('expression', lambda n: 'SCHEMA p;\nENTITY a; x : INTEGER;\n DERIVE y : INTEGER := ' + ' + '.join(['x'] * (n // 4)) + ';\nEND_ENTITY;\nEND_SCHEMA;\n')):
        for t in TOOLS:
            ts = []
            for n in (12500, 25000, 50000, 100000):
                r = run_one({'tool': t, 'text': mk(n), 'timeout': 600})
                chk.count(states=1, transitions=1)
                ts.append(None if r.get('san') else r['t'])
                if r.get('san'):
                    chk.violation('%s/%s' % (PID, key_of(t, None, r)), '%s: %s in %s on doubling/%s n=%d' % (t, r['san'][0], r['san'][1], cls, n), {'tool': t, 'cls': 'doubling:' + cls, 'n': n, 'log': r.get('log', '')})
            times['%s/%s' % (cls, t)] = ts
            if all(x is not None for x in ts):
                rr = [ts[i + 1] / max(ts[i], 1e-3) for i in range(3)]
                if all(x > 3.0 for x in rr) and ts[-1] > 2.0:
                    chk.violation('%s/superlinear/%s/%s' % (PID, t, cls), 'time grows faster than the input: %s s' % ['%.2f' % x for x in ts], {'tool': t, 'cls': cls, 'times': ts})
    chk.extra['doubling_times_s'] = times
    chk.extra['slow_cases'] = slow[:30]
    chk.bounds = {'cases': len(cases)}
    chk.sample({'tool': 'exppp', 'cls': 'shape:nested-remarks', 'detail': 21})
    chk.sample({'tool': 'check-express', 'cls': 'byte-level', 'detail': 'm_strlit@57#0 (NUL)'})
    sys.exit(chk.finish())


if __name__ == '__main__':
    main()
