"""Running Part 21 cases through p21drv in parallel, with crash isolation."""
import os, re, multiprocessing as mp
from . import common, drv, p21ref

_G = {}


def _init(lib_so_dir, variant, timeout):
    from . import build
    lib = build.SchemaLib(lib_so_dir, variant, [])
    _G['d'] = drv.Driver('p21drv', lib, variant, timeout=timeout)
    import atexit
    atexit.register(lambda: _G['d'].close())


def crash_result(e):
    cls, site = e.key()
    return {'crash': [cls, site], 'log': e.log[-3000:].decode('latin1')}


def run_case(case):
    res = _run_case(case)
    if res.get('crash') and res['crash'][0] == 'SIGKILL':
        # killed from outside (the OOM killer picks any large process): decide on a re-run alone
        res = _run_case(case)
    return res


def _run_case(case):
    """case: {'text': bytes|str, 'mode': 'rt'|'read'|'ws', 'strict': bool, ...}
    rt:   read, dump, write o1, (new) read o1, write o2
    Returns dict with sev, dump, out1, out2 ... or {'crash': (cls, site)}."""
    d = _G['d']
    text = case['text']
    if isinstance(text, str):
        text = text.encode('latin1')
    fin = os.path.join(d.dir, 'in.stp')
    o1 = os.path.join(d.dir, 'o1.stp')
    o2 = os.path.join(d.dir, 'o2.stp')
    for p in (o1, o2):
        try:
            os.remove(p)
        except OSError:
            pass
    with open(fin, 'wb') as f:
        f.write(text)
    res = {}
    d.recycle_if_big()
    try:
        if case.get('ctor'):
            a = d.cmd('ctor %s%s' % (fin, ' strict' if case.get('strict') else ''))
        else:
            d.cmd('new strict' if case.get('strict') else 'new')
        if case.get('prior') is not None:
            # the same session object reads another file first
            fp = os.path.join(d.dir, 'prior.stp')
            with open(fp, 'wb') as f:
                f.write(case['prior'].encode('latin1') if isinstance(case['prior'], str) else case['prior'])
            d.cmd('read ' + fp)
        if case.get('ctor'):
            pass
        elif case.get('append_after') is not None:
            # the file is APPENDED to a session that already holds another population
            fp = os.path.join(d.dir, 'first.stp')
            with open(fp, 'wb') as f:
                f.write(case['append_after'].encode('latin1') if isinstance(case['append_after'], str) else case['append_after'])
            d.cmd('read ' + fp)
            a = d.cmd('append ' + fin)
        else:
            a = d.cmd('read ' + fin)
        res.update(drv.kv(a[0]))
        if res['esev'] < 2 or case.get('want_log'):
            res['log'] = d._readlog()[-4000:].decode('latin1')
        res['dump'] = drv.parse_dump(d.cmd('dump'))
        if case.get('mode', 'rt') == 'read':
            return res
        w = d.cmd('write ' + o1)
        res['wsev'] = drv.kv(w[0])['sev']
        res['out1'] = open(o1, 'rb').read() if os.path.exists(o1) else None
        if res['out1'] is not None:
            d.cmd('new')
            a2 = d.cmd('read ' + o1)
            res['sev2'] = drv.kv(a2[0])['sev']
            d.cmd('write ' + o2)
            res['out2'] = open(o2, 'rb').read() if os.path.exists(o2) else None
        return res
    except drv.Crash as e:
        res.update(crash_result(e))
        return res


def run_many(lib, cases, fn=run_case, variant=None, timeout=20, procs=None, chunksize=8):
    """Ordered results for cases; each worker owns one driver process (restarted after a crash)."""
    variant = variant or lib.variant
    cases = list(cases)
    if not cases:
        return []
    procs = min(procs or common.NCPU, max(1, len(cases) // 4))
    with mp.get_context('fork').Pool(procs, initializer=_init, initargs=(lib.dir, variant, timeout)) as pool:
        return pool.map(fn, cases, chunksize)


def iter_many(lib, cases, fn=run_case, variant=None, timeout=20, procs=None, chunksize=8):
    variant = variant or lib.variant
    procs = procs or common.NCPU
    pool = mp.get_context('fork').Pool(procs, initializer=_init, initargs=(lib.dir, variant, timeout))
    try:
        for r in pool.imap(fn, cases, chunksize):
            yield r
    finally:
        pool.terminate()
        pool.join()


def p21read(lib, text, strict=False, timeout=30, opts=None, with_out=True):
    """Run the reference tool built for this library; returns (exit, output bytes, combined log)."""
    d = drv.scratch_dir('p21read')
    try:
        fin = os.path.join(d, 'in.stp')
        fout = os.path.join(d, 'out.stp')
        with open(fin, 'wb') as f:
            f.write(text if isinstance(text, bytes) else text.encode('latin1'))
        env = dict(common.ASAN_ENV)
        cmd = [lib.p21read] + (list(opts) if opts is not None else (['-s'] if strict else [])) + [fin] + ([fout] if with_out else [])
        rc, out, _ = common.run(cmd, timeout=timeout, env=env, cwd=d, merge=True)
        data = open(fout, 'rb').read() if os.path.exists(fout) else None
        return rc, data, out
    finally:
        import shutil
        shutil.rmtree(d, ignore_errors=True)


MSG_RE = re.compile(r'(Found invalid [A-Za-z ]+ value|Delimiter expected after attribute value|requires external mapping|is abstract supertype|'
                    r'Internal error:\s+\S+?(\w+\.cc):?\s*\d+|Missing attribute value|Unexpected character|not (?:represent )?a legal complex entity|illegal entity names?|'
                    r'Invalid \w+ value|unknown ENTITY type|Entity .{0,30}not found|[Ii]nvalid (entity|ENTITY) reference|instance #\d+ not found|'
                    r'Unable to recover[^\n]{0,40})')
MSG_RE2 = re.compile(r'(ERROR: [^\n]{0,60})')


def msgsig(log):
    """first recognisable error message of the library's chatter, with numbers and names removed"""
    m = MSG_RE.search(log or '') or MSG_RE2.search(log or '')
    if not m:
        return 'no-message'
    t = m.group(1)
    t = re.sub(r'(skipping|lost|Data lost)[: ].*', r'\1', t)
    t = re.sub(r'#\d+', '#N', t)
    t = re.sub(r'\d+', 'N', t)
    t = re.sub(r"'[^']*'", "'X'", t)
    t = re.sub(re.escape(common.REPO) + r'/\S*/', '', t)
    return re.sub(r'\s+', ' ', t).strip()[:70]


TOK = re.compile(r"'(?:[^']|'')*'|\"[^\"]*\"|\.[A-Za-z0-9_]+\.|#\d+|[+-]?\d+\.\d*(?:E[+-]?\d+)?|[+-]?\d+|!?[A-Za-z_][A-Za-z0-9_]*|[(),;=$*]")


def tokenize(text):
    """split an instance text into Part 21 tokens (no whitespace/comments expected inside)"""
    toks = TOK.findall(text)
    assert ''.join(toks) == text, (text, toks)
    return toks


def tokclass(t):
    if t in '(),;=$*':
        return t
    c = t[0]
    if c == "'":
        return 'str'
    if c == '"':
        return 'bin'
    if c == '.':
        return 'enum'
    if c == '#':
        return 'ref'
    if c in '+-0123456789':
        return 'real' if ('.' in t) else 'int'
    return 'kw'
