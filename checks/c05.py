#!/usr/bin/python3
"""C05 - reading and writing Part 21 is memory-safe and terminates on any input.
(a) exhaustive short inputs over the Part 21 punctuation alphabet at the attribute seam and as instance
bodies; (b) grammar-aware single mutations of conforming files (token delete/duplicate/swap, stretching,
nesting, truncation at every offset, oversized complex instances) - all on ASan+UBSan builds."""
import sys, os, json, re, itertools, time
sys.path.insert(0, '/verif')
sys.path.insert(0, '/verif/checks')
from vlib import common, build, smodel, p21ref, p21run, drv
import multiprocessing as mp
import c01

PID = 'C05'
ALPHA = "(),$*#'\".-+01EA /\\;="
ATTR_KINDS = ['inte', 'real', 'numb', 'stri', 'bin', 'boo', 'logi', 'enum', 'ref', 'seldef', 'selent', 'selmix', 'selnest', 'selagg',
              'list_int', 'list_real', 'list_str', 'list_bin', 'list_enum', 'list_ref', 'list_seldef', 'list_selent', 'set_bool', 'array_real',
              'arrayopt_int', 'list_list_int', 'array_array_real', 'list_set_ref', 'dlsti', 'ddint']
QUICK_KINDS = ['inte', 'real', 'stri', 'bin', 'enum', 'ref', 'seldef', 'selent', 'list_int', 'list_str', 'list_ref', 'list_seldef', 'list_list_int', 'selagg']
BUFSIZ = 8192
STRETCH = [63, 64, 65, 255, 256, BUFSIZ - 1, BUFSIZ, BUFSIZ + 1, 100000]

_W = {}


def _init(libdir):
    lib = build.SchemaLib(libdir, 'san', [])
    d = drv.Driver('attrdrv', lib, 'san', timeout=120)
    _W['d'] = d
    _W['sup'] = None
    import atexit
    atexit.register(d.close)


def _ensure_sup(d):
    sup = os.path.join(d.dir, 'sup.stp')
    if not os.path.exists(sup):
        with open(sup, 'w') as f:
            f.write(smodel.file_text('fk', [smodel.inst_text(*i) for i in smodel.SUPPORT_POP]))
    if d.p is None:
        d.start()
        d.cmd('S ' + sup)
        _W['started'] = True


MAXFOUND = 4          # per job; a change that breaks every input is reported from a handful of them, the rest of the space is then left unexplored
STOP = '/dev/shm/verif-c05-stop-%d' % os.getppid()


def attr_batch(ent, inputs, found, alone=False):
    """run inputs through attrdrv 'B'; on a crash or a hang go on behind the answers already received and bisect the (at most 32) inputs the driver
    had not yet answered down to the single input. found: list of (input, crashkey, log)"""
    d = _W['d']
    if not inputs or len(found) >= MAXFOUND or os.path.exists(STOP):
        return
    if d.recycle_if_big():
        _W['started'] = False
    try:
        _ensure_sup(d)
        d.cmd('E %s 0' % ent)
        d.cmd('B ' + ' '.join((x.encode('latin1').hex() or '-') for x in inputs), timeout=(10 if len(inputs) <= 32 else 30) + len(inputs) // 100)
        return
    except drv.Crash as e:
        d.kill()
        if len(inputs) == 1:
            if not alone:
                return attr_batch(ent, inputs, found, alone=True)      # replay alone once more before reporting
            found.append((inputs[0], e.key(), e.log[-2500:].decode('latin1')))
            if len(found) >= MAXFOUND:
                open(STOP, 'w').close()
            return
        if len(inputs) > 32:
            n = min(e.answered, len(inputs) - 1)     # the driver flushes every 32 answers: the culprit is among the next 32
            n -= n % 32
            attr_batch(ent, inputs[n:n + 32], found)
            attr_batch(ent, inputs[n + 32:], found)
            return
        mid = len(inputs) // 2
        attr_batch(ent, inputs[:mid], found)
        attr_batch(ent, inputs[mid:], found)


def attr_job(job):
    """job = (kind, entity, n, prefix): all strings of length n over ALPHA that start with prefix, each before ',' and ')'
    (generated here, in the worker: the whole space does not fit into the parent's memory)"""
    kind, ent, n, prefix = job
    found = []
    batch = []
    count = 0
    for t in itertools.product(ALPHA, repeat=n - len(prefix)):
        s = prefix + ''.join(t)
        batch.append(s + ',')
        batch.append(s + ')')
        if len(batch) >= 4000:
            count += len(batch)
            attr_batch(ent, batch, found)
            batch = []
    if batch:
        count += len(batch)
        attr_batch(ent, batch, found)
    return kind, count, found


def all_strings(L):
    for n in range(0, L + 1):
        for t in itertools.product(ALPHA, repeat=n):
            yield ''.join(t)


# ------------------------------------------------------------------ file-level cases

def file_case(case):
    res = _file_case(case)
    if res.get('crash') and res['crash'][0] == 'SIGKILL':
        res = _file_case(case)          # killed from outside (OOM killer): decide on a re-run alone
    return res


def _file_case(case):
    """read (+write) one file on the san p21drv; returns {'crash':..} or timing info"""
    d = p21run._G['d']
    d.recycle_if_big()
    text = case['text']
    if isinstance(text, str):
        text = text.encode('latin1')
    fin = os.path.join(d.dir, 'in.stp')
    o1 = os.path.join(d.dir, 'o1.stp')
    with open(fin, 'wb') as f:
        f.write(text)
    res = {}
    t0 = time.time()
    try:
        d.cmd('new')
        rd = 'readws ' if case.get('ws') else 'read '
        a = d.cmd(rd + fin, timeout=case.get('timeout', 30))
        res.update(drv.kv(a[0]))
        d.cmd('dump', timeout=case.get('timeout', 30))
        d.cmd(('writews ' if case.get('ws') else 'write ') + o1, timeout=case.get('timeout', 30))
    except drv.Crash as e:
        res['crash'] = list(e.key())
        res['log'] = e.log[-2500:].decode('latin1')
        d.kill()
    res['t'] = time.time() - t0
    return res


def mutations(sp, ename, tier):
    """grammar-aware single mutations of the conforming default population of ename"""
    base = sp.base(ename)
    E = ename.upper()
    good = smodel.inst_text(10, E, base)
    toks = p21run.tokenize(good)
    mk = lambda t, cls, det: {'ent': ename, 'cls': cls, 'detail': det, 'text': sp.file([t])}
    for i in range(len(toks)):
        yield mk(''.join(toks[:i] + toks[i + 1:]), 'token-delete', p21run.tokclass(toks[i]))
        yield mk(''.join(toks[:i] + [toks[i], toks[i]] + toks[i + 1:]), 'token-duplicate', p21run.tokclass(toks[i]))
        if i + 1 < len(toks):
            yield mk(''.join(toks[:i] + [toks[i + 1], toks[i]] + toks[i + 2:]), 'token-swap', p21run.tokclass(toks[i]) + p21run.tokclass(toks[i + 1]))
    # stretching
    for i, t in enumerate(toks):
        tc = p21run.tokclass(t)
        if tc in ('int', 'real', 'kw', 'str', 'bin', 'enum', 'ref'):
            for n in STRETCH:
                if tier == 'quick' and n == 100000 and not ename.startswith('e_'):
                    continue
                if tc == 'int':
                    s = '1' * n
                elif tc == 'real':
                    s = '1' * n + '.5'
                elif tc == 'kw':
                    s = 'K' * n
                elif tc == 'str':
                    s = "'" + 'a' * n + "'"
                elif tc == 'bin':
                    s = '"1' + 'A' * n + '"'
                elif tc == 'enum':
                    s = '.' + 'R' * n + '.'
                else:
                    s = '#' + '1' * n
                yield mk(''.join(toks[:i] + [s] + toks[i + 1:]), 'stretch-%s' % tc, str(n))
            if tc == 'real':
                for n in (63, 64, 65, 400):
                    yield mk(''.join(toks[:i] + ['1.' + '5' * n] + toks[i + 1:]), 'stretch-real-fraction', str(n))
                    yield mk(''.join(toks[:i] + ['1.E' + '1' * n] + toks[i + 1:]), 'stretch-real-exponent', str(n))
    # parenthesis nesting at every value position
    for k in range(len(base)):
        for depth in (2, 64, 1000, 100000):
            if tier == 'quick' and depth == 100000 and not ename.startswith('e_'):
                continue
            p = list(base)
            p[k] = '(' * depth + '1' + ')' * depth
            yield mk(smodel.inst_text(10, E, p), 'nesting', str(depth))
            p[k] = '(' * depth
            yield mk(smodel.inst_text(10, E, p), 'nesting-open', str(depth))
    # truncation at every byte offset of the data section
    full = sp.file([good])
    start = full.index('DATA;')
    step = 1 if (tier == 'thorough' or ename.startswith('e_')) else 3
    for off in range(start, len(full), step):
        yield {'ent': ename, 'cls': 'truncate', 'detail': 'data', 'text': full[:off]}


def header_mutations(sp):
    full = sp.file([])
    end = full.index('DATA;')
    for off in range(0, end + 6):
        yield {'ent': 'header', 'cls': 'truncate', 'detail': 'header', 'text': full[:off]}
    H = smodel.HEADER % 'FK'
    for n in STRETCH:
        yield {'ent': 'header', 'cls': 'stretch-header-string', 'detail': str(n), 'text': full.replace("'verif'", "'" + 'v' * n + "'")}
        yield {'ent': 'header', 'cls': 'stretch-header-keyword', 'detail': str(n), 'text': full.replace('FILE_NAME', 'F' * n)}
        yield {'ent': 'header', 'cls': 'stretch-schema-name', 'detail': str(n), 'text': full.replace("'FK'", "'" + 'S' * n + "'")}
    yield {'ent': 'header', 'cls': 'comment-long', 'detail': '100000', 'text': full.replace('DATA;', 'DATA; /*' + 'c' * 100000 + '*/')}
    yield {'ent': 'header', 'cls': 'comment-unterminated', 'detail': '', 'text': full.replace('DATA;', 'DATA; /* never closed')}
    # every comment body up to a length over { * / c blank }, closed and cut off by the end of the file, in the header section, between two
    # instances and inside an instance
    one = sp.file(["#10=E_INTE(1);", "#11=E_STRI('s');"])
    places = [('header', one.index('FILE_NAME')), ('between-instances', one.index('#11=')), ('inside-instance', one.index("'s'")), ('after-endsec', one.rindex('END-ISO'))]
    L = 3 if sp.tier == 'quick' else 5
    for n in range(0, L + 1):
        for body in itertools.product('*/c ', repeat=n):
            b = ''.join(body)
            for pname, pos in places:
                yield {'ent': 'header', 'cls': 'comment-body-cut', 'detail': pname, 'text': one[:pos] + '/*' + b}
                yield {'ent': 'header', 'cls': 'comment-body-closed', 'detail': pname, 'text': one[:pos] + '/*' + b + '*/' + one[pos:]}
    # every parameter of the three header entities replaced by each of the degenerate values (an empty list, a list holding an empty string, unset,
    # nothing, a value of another kind) - the data section behind it is then read with whatever the header left
    hdr_params = [('FILE_DESCRIPTION', ["('verif')", "'2;1'"]), ('FILE_NAME', ["'n'", "'2020-01-01T00:00:00'", "('au')", "('org')", "'pp'", "'os'", "'auth'"]), ('FILE_SCHEMA', ["('FK')"])]
    for kw, params in hdr_params:
        old_rec = '%s(%s);' % (kw, ','.join(params))
        if old_rec not in full:
            continue
        for k in range(len(params)):
            for deg in ('()', "('')", '$', '', '7', '(())', "'x'", '(7)', '($)', '*', "('a','b','c')"):
                pp = list(params)
                pp[k] = deg
                yield {'ent': 'header', 'cls': 'header-parameter', 'detail': '%s[%d]=%s' % (kw, k, deg or 'nothing'), 'text': full.replace(old_rec, '%s(%s);' % (kw, ','.join(pp)))}
        yield {'ent': 'header', 'cls': 'header-parameter', 'detail': '%s()' % kw, 'text': full.replace(old_rec, '%s();' % kw)}
        yield {'ent': 'header', 'cls': 'header-parameter', 'detail': '%s missing' % kw, 'text': full.replace(old_rec, '')}
    yield {'ent': 'header', 'cls': 'empty-file', 'detail': '', 'text': ''}
    yield {'ent': 'header', 'cls': 'nul-bytes', 'detail': '', 'text': full.replace('DATA;', 'DATA;\x00\x00#1=TGT(\x001);')}


def complex_cases(fam_i):
    """oversized / illegal externally mapped instances on family I"""
    sup = [smodel.inst_text(*i) for i in smodel.SUPPORT_POP]
    for n in (2, 64, 65, 100, 1000, BUFSIZ, BUFSIZ + 1, 20000):
        parts = ''.join("C1(7,'a')" for _ in range(n))
        yield {'ent': 'complex', 'cls': 'complex-many-parts', 'detail': str(n), 'text': smodel.file_text('fi', sup + ['#10=(%s);' % parts])}
        parts = ''.join('P%d()' % k for k in range(n))
        yield {'ent': 'complex', 'cls': 'complex-unknown-parts', 'detail': str(n), 'text': smodel.file_text('fi', sup + ['#10=(%s);' % parts])}
    for combo in ("C1(7,'a')D0(7)", "AB('x')", "AB1(7)AB2(1.5,#1)AB('x')", "D1('a')D2(1.5)", "N0(7)N1(7)", "M1(7)M2('q')", "D0(7)D1('s')D2(2.5)D3(.RED.)",
                  "M1(7)M12($)M2('q')", "N0(7)N1(7)N12(1.5)N2('x')", "C1(7,'a')C1(7,'a')", "()", "C1", "C1(", "C1(7,'a')C2", "C3(.RED.,('a'))"):
        yield {'ent': 'complex', 'cls': 'complex-combination', 'detail': re.sub(r'\(.*?\)', '', combo) or combo, 'text': smodel.file_text('fi', sup + ['#10=(%s);' % combo])}


def key_of(case, res):
    return 'crash/%s/%s' % tuple(res['crash'])


def replay(path):
    obj = json.load(open(path))
    case = obj['case']
    if case.get('seam') == 'attr':
        fam = smodel.family_K('fk', pairs='core')
        lib = build.schema_lib(fam.express(), 'san')
        _init(lib.dir)
        found = []
        attr_batch(case['entity'], [case['input']], found)
        print('input %r on %s ->' % (case['input'], case['entity']), [(k, l[-800:]) for _, k, l in found] or 'no crash')
        return 1 if found else 0
    fam = smodel.family_I('fi') if case['ent'] == 'complex' else smodel.family_K('fk', pairs='core')
    lib = build.schema_lib(fam.express(), 'san')
    r = p21run.run_many(lib, [case], fn=file_case, variant='san', procs=1)[0]
    print('case %s/%s len=%d ->' % (case['cls'], case['detail'], len(case['text'])), r.get('crash'), r.get('log', '')[-1200:], 'time %.2fs' % r['t'])
    return 1 if 'crash' in r else 0


def main():
    args = common.parse_args(sys.argv[1:])
    if args.replay:
        sys.exit(replay(args.replay))
    chk = common.Check(PID, args.tier, deadline_s=args.deadline)
    L = 4 if args.tier == 'quick' else 5
    kinds = QUICK_KINDS if args.tier == 'quick' else ATTR_KINDS
    chk.rule = ('(a) ALL strings of length <= %d over the Part 21 punctuation alphabet %r, each followed by "," and by ")", read by STEPattribute::STEPread for '
                '%d attribute kinds, and as the body of an instance read by STEPfile; (b) all single grammar-aware mutations of the conforming default population of '
                'each kind entity: token delete/duplicate/swap at every token, every token stretched to %s, parentheses nested to 2/64/1000/100000, truncation at '
                'every byte offset, header mutations, every comment body up to length 3 (thorough 5) over {* / c blank} cut off by the end of the file and closed at four places, '
                'a repeated instance name (same record / other values / other entity) as exchange file and as working-session file under all 16 state pairs, '
                'oversized and illegal complex instances, the same as working-session files; all on ASan+UBSan builds; '
                'state = distinct byte string per seam; oracle = no sanitizer report, no signal, no hang' % (L, ALPHA, len(kinds), STRETCH))
    chk.assumptions = ['ASan/UBSan (gcc 12) detect the invalid accesses; leaks are not judged', 'time proportionality is checked by the coarse doubling rule only']
    fam = smodel.family_K('fk', pairs='core')
    lib = build.schema_lib(fam.express(), 'san')
    # ---- (a) attribute seam
    jobs = []
    for kind in kinds:
        ent = 'E_' + kind.upper()
        for n in range(0, L + 1):
            if n <= 2:
                jobs.append((kind, ent, n, ''))
            else:
                for pre in itertools.product(ALPHA, repeat=2):
                    jobs.append((kind, ent, n, ''.join(pre)))
    chk.bounds['attr_seam'] = {'max_len': L, 'kinds': len(kinds), 'strings_per_kind': sum(len(ALPHA) ** n for n in range(L + 1)) * 2}
    if os.path.exists(STOP.replace(str(os.getppid()), str(os.getpid()))):
        os.unlink(STOP.replace(str(os.getppid()), str(os.getpid())))
    with mp.get_context('fork').Pool(common.NCPU, initializer=_init, initargs=(lib.dir,)) as pool:
        for kind, n, found in pool.imap_unordered(attr_job, jobs):
            chk.count(states=n, transitions=n)
            chk.cls('attr-seam/' + kind, n)
            chk.outcome('no-report', n - len(found))
            for inp, key, log in found:
                chk.outcome('crash')
                chk.violation('%s/crash/%s/%s' % (PID, key[0], key[1]), 'sanitizer/signal %s in %s reading %r into an attribute of kind %s' % (key[0], key[1], inp[:60], kind),
                              {'seam': 'attr', 'entity': 'E_' + kind.upper(), 'input': inp, 'log': log[-1500:]})
            if chk.deadline.expired():
                break
    stopf = STOP.replace(str(os.getppid()), str(os.getpid()))
    if os.path.exists(stopf):
        os.unlink(stopf)
        chk.cap('attribute seam: exploration stopped after %d reports in one job (the remaining strings were not run)' % MAXFOUND)
    chk.sample({'seam': 'attr', 'kind': 'list_int', 'input': "(1,'"})
    # ---- (a') instance bodies + (b) mutations through the file seam
    sp = c01.Space(fam, args.tier)
    cases = []
    Lb = 2 if args.tier == 'quick' else 3
    for kind in kinds:
        for s in all_strings(Lb):
            cases.append({'ent': 'e_' + kind, 'cls': 'body', 'detail': 'len<=%d' % Lb, 'text': sp.file(['#10=E_%s(%s);' % (kind.upper(), s)])})
        for c in mutations(sp, 'e_' + kind, args.tier):
            cases.append(c)
    for pe in ('p_inte_stri', 'p_list_str_ref', 'p_seldef_list_int', 'o_list_str', 'o_seldef'):
        for c in mutations(sp, pe, args.tier):
            cases.append(c)
    # the same instance name twice: same record, other values, other entity - as exchange file and as working-session file under every pair of
    # state letters (the second pass treats a repeated name differently in the two file types)
    for e in sp.entities():
        if not e.name.startswith('e_') or e.abstract or e.name.endswith(('enum2', 'seldef2')):
            continue            # (renamed enumeration/select attribute types crash on their own: C01 known finding; a failing base is not explored further)
        base = sp.base(e.name)
        E = e.name.upper()
        good = smodel.inst_text(10, E, base)
        alt = smodel.inst_text(10, E, [sp.lits.alts(a.type)[-1] for _, a, _ in sp.s.p21_attrs(e.name)])
        for nm, second in (('same', good), ('other-values', alt), ('other-entity', '#10=TGT(5);')):
            for first in (good, alt):
                if first == second and nm != 'same':
                    continue
                cases.append({'ent': e.name, 'cls': 'duplicate-name', 'detail': nm, 'text': sp.file([first, second])})
                for st1 in 'CIND':
                    for st2 in 'CIND':
                        t = sp.file([first, second]).replace('ISO-10303-21;', 'STEP_WORKING_SESSION;', 1).replace('END-ISO-10303-21;', 'END-STEP_WORKING_SESSION;')
                        t = re.sub(r'^#(?!10=)', 'C#', t, flags=re.M)
                        t = t.replace('#10=', st1 + '#10=', 1)
                        i = t.index('#10=', t.index('#10=') + 4)
                        t = t[:i] + st2 + t[i:]
                        cases.append({'ent': e.name, 'cls': 'ws-duplicate-name', 'detail': '%s/%s%s' % (nm, st1, st2), 'text': t, 'ws': True})
    cases += list(header_mutations(sp))
    # working-session variants of the token mutations of two kinds
    for kind in ('inte', 'list_str', 'seldef'):
        for c in mutations(sp, 'e_' + kind, 'quick'):
            if c['cls'] in ('token-delete', 'token-duplicate', 'truncate'):
                t = c['text'].replace('ISO-10303-21;', 'STEP_WORKING_SESSION;', 1).replace('END-ISO-10303-21;', 'END-STEP_WORKING_SESSION;')
                t = re.sub(r'^#', 'C#', t, flags=re.M)
                cases.append({'ent': c['ent'], 'cls': 'ws-' + c['cls'], 'detail': c['detail'], 'text': t, 'ws': True})
    seen = set()
    uniq = []
    for c in cases:
        if c['text'] not in seen:
            seen.add(c['text'])
            c['timeout'] = 120 if len(c['text']) > 50000 else 10
            uniq.append(c)
    cases = uniq
    results = p21run.run_many(lib, cases, fn=file_case, variant='san', timeout=120, chunksize=8)
    slow = []
    for c, r in zip(cases, results):
        chk.count(states=1, transitions=1)
        chk.cls('file-seam/' + c['cls'])
        if 'crash' in r:
            chk.outcome('crash')
            chk.violation('%s/%s' % (PID, key_of(c, r)), '%s in %s on %s/%s (%s)' % (r['crash'][0], r['crash'][1], c['cls'], c['detail'], c['ent']),
                          dict(c, log=r.get('log', '')[-1500:]) if len(c['text']) < 20000 else dict(c, text=c['text'][:2000] + '...<%d bytes>' % len(c['text']), gen={'cls': c['cls'], 'detail': c['detail'], 'ent': c['ent']}, log=r.get('log', '')[-1500:]))
        else:
            chk.outcome('sev=%s' % r.get('esev'))
            if r['t'] > 2.0:
                slow.append((c, r['t']))
    # family I: complex instances
    fam_i = smodel.family_I('fi')
    libi = build.schema_lib(fam_i.express(), 'san')
    ccases = list(complex_cases(fam_i))
    for c in ccases:
        c['timeout'] = 120
    cres = p21run.run_many(libi, ccases, fn=file_case, variant='san', timeout=120, chunksize=2)
    for c, r in zip(ccases, cres):
        chk.count(states=1, transitions=1)
        chk.cls('file-seam/' + c['cls'])
        if 'crash' in r:
            chk.outcome('crash')
            chk.violation('%s/%s' % (PID, key_of(c, r)), '%s in %s on %s/%s' % (r['crash'][0], r['crash'][1], c['cls'], c['detail']),
                          dict(c, text=c['text'] if len(c['text']) < 20000 else c['text'][:2000] + '...<%d bytes>' % len(c['text']), log=r.get('log', '')[-1500:]))
        else:
            chk.outcome('sev=%s' % r.get('esev'))
            if r['t'] > 2.0:
                slow.append((c, r['t']))
    # ---- time proportional to the input: doubling rule on the stretch sites
    ratios = {}
    for cls, mkbody in (('int', lambda n: '#10=E_INTE(%s);' % ('1' * n)), ('str', lambda n: "#10=E_STRI('%s');" % ('a' * n)),
                        ('list', lambda n: '#10=E_LIST_INT((%s));' % ','.join(['1'] * (n // 2))), ('kw', lambda n: '#10=%s(1);' % ('K' * n)),
                        ('nest', lambda n: '#10=E_LIST_LIST_INT(%s1%s);' % ('(' * (n // 2), ')' * (n // 2))), ('insts', lambda n: '\n'.join('#%d=TGT(1);' % (100 + k) for k in range(n // 10))),
                        ('comment', lambda n: '/*%s*/#10=E_INTE(1);' % ('c' * n))):
        ts = []
        dcs = [{'ent': 'time', 'cls': 'doubling-' + cls, 'detail': str(n), 'text': sp.file([mkbody(n)]), 'timeout': 300} for n in (12500, 25000, 50000, 100000)]
        rs = p21run.run_many(lib, dcs, fn=file_case, variant='san', timeout=300, procs=4, chunksize=1)
        for c, r in zip(dcs, rs):
            chk.count(states=1, transitions=1)
            if 'crash' in r:
                chk.violation('%s/%s' % (PID, key_of(c, r)), '%s in %s on %s n=%s' % (r['crash'][0], r['crash'][1], c['cls'], c['detail']), dict(c, text='<generated: %s n=%s>' % (cls, c['detail']), log=r.get('log', '')[-1500:]))
                ts.append(None)
            else:
                ts.append(r['t'])
        ratios[cls] = ts
        if all(t is not None for t in ts):
            rr = [ts[i + 1] / max(ts[i], 1e-3) for i in range(3)]
            if all(x > 3.0 for x in rr) and ts[-1] > 2.0:
                chk.violation('%s/superlinear/%s' % (PID, cls), 'time grows faster than the input for %s: %s s at n=12.5k,25k,50k,100k' % (cls, ['%.2f' % t for t in ts]), {'cls': cls, 'times': ts})
    chk.extra['doubling_times_s'] = ratios
    chk.extra['slow_cases'] = [(c['cls'], c['detail'], round(t, 2)) for c, t in slow[:20]]
    chk.bounds['file_seam'] = {'cases': len(cases) + len(ccases)}
    if chk.transitions < 1000:
        chk.harness_error('too few cases')
    sys.exit(chk.finish())


if __name__ == '__main__':
    main()
