#!/usr/bin/python3
"""C15 - strict and lenient handling of missing required attributes.
Configuration x input enumeration: strict in {off,on} x every entity of families K and I x every
attribute position (own, inherited, inside a complex part) replaced by `$` and by the empty parameter."""
import sys, os, json, re
sys.path.insert(0, '/verif')
sys.path.insert(0, '/verif/checks')
from vlib import common, build, smodel, p21ref, p21run, drv
import c01

PID = 'C15'
FILLER = {'INTEGER': ('int', 0), 'REAL': ('real', 0.0), 'NUMBER': ('real', 0.0), 'STRING': ('str', b'')}


def gen_cases(fam, tier):
    sp = c01.Space(fam, tier)
    ents = fam.tmap()[1]
    for e in sp.entities():
        ename = e.name
        if e.abstract or ename in fam.noinst:
            continue
        if ename.startswith('p_') and tier == 'quick' and not ename.startswith(('p_inte_', 'p_stri_', 'p_real_', 'p_list_int_', 'p_ref_')):
            continue
        pa = fam.p21_attrs(ename)
        base = sp.base(ename)
        E = ename.upper()
        yield {'ent': ename, 'form': 'none', 'attr': -1, 'text': sp.file([smodel.inst_text(10, E, base)]), 'complex': False}
        for k, (owner, a, redecl) in enumerate(pa):
            if redecl:
                continue
            # the unset marker in every lexical dress the grammar allows: white space and comments may follow and precede any token
            for form, lit in (('$', '$'), ('empty', ''), ('$+blank', '$ '), ('blank+$', ' $'), ('$+comment', '$/* c */'), ('$+blank+comment', '$ /* not set */ '),
                              ('comment+$', '/* c */$'), ('$+newline', '$\n'), ('empty:blank', ' '), ('empty:comment', '/* c */')):
                p = list(base)
                p[k] = lit
                yield {'ent': ename, 'form': form, 'attr': k, 'owner': owner, 'text': sp.file([smodel.inst_text(10, E, p)]), 'complex': False}
        # one attribute unset while the OTHER attribute of a two-attribute entity takes every literal alternative of its kind (what the writer and
        # the instance's state make of the substituted instance depends on its other values)
        if len(pa) == 2 and not any(r for _, _, r in pa):
            for k in (0, 1):
                o = 1 - k
                for lit in sp.lits.alts(pa[o][1].type)[1:]:
                    p = list(base)
                    p[o] = lit
                    p[k] = '$'
                    yield {'ent': ename, 'form': '$', 'attr': k, 'owner': pa[k][0], 'text': sp.file([smodel.inst_text(10, E, p)]), 'complex': False, 'other': lit}
        # two unset attributes in one instance (the severity of the instance is the worst of its attributes, not the last)
        if len(pa) == 2 and not any(r for _, _, r in pa):
            for l0, l1 in (('$', '$'), ('$', ''), ('', '$')):
                yield {'ent': ename, 'form': 'both', 'attr': -2, 'text': sp.file([smodel.inst_text(10, E, [l0, l1])]), 'complex': False}
        # the same inside the parts of an externally mapped instance
        order = fam.ancestors_ordered(ename)
        if len(order) > 1:
            redecl = set((d.redeclares, d.name) for n in order for d in ents[n].derived if d.redeclares)
            defaults = {n: ['*' if (n, a.name) in redecl else sp.lits.alts(a.type, short=True)[0] for a in ents[n].attrs if not a.redeclares] for n in order}
            mk = lambda vals: '#10=(%s);' % ''.join('%s(%s)' % (n.upper(), ','.join(vals[n])) for n in sorted(order))
            yield {'ent': ename, 'form': 'none', 'attr': -1, 'text': sp.file([mk(defaults)]), 'complex': True}
            for n in order:
                for k, a in enumerate([x for x in ents[n].attrs if not x.redeclares]):
                    if (n, a.name) in redecl:
                        continue
                    for form, lit in (('$', '$'), ('$+blank+comment', '$ /* not set */ ')):
                        v = {m: list(x) for m, x in defaults.items()}
                        v[n][k] = lit
                        yield {'ent': ename, 'form': form, 'attr': k, 'part': n, 'text': sp.file([mk(v)]), 'complex': True}


def attr_of(fam, case):
    ents = fam.tmap()[1]
    if case['complex']:
        return [x for x in ents[case['part']].attrs if not x.redeclares][case['attr']]
    return fam.p21_attrs(case['ent'])[case['attr']][1]


def written_value(res, case):
    """parsed value of the affected attribute in the written file, or None"""
    o1 = res.get('out1')
    if not o1:
        return None
    try:
        pop = p21ref.parse_file(o1)
    except p21ref.P21Error:
        return 'unparsable'
    inst = pop.by_id().get(10)
    if inst is None:
        return None
    if case['complex']:
        for kw, params in inst.parts:
            if kw == case['part'].upper():
                return params[case['attr']] if case['attr'] < len(params) else None
        return None
    params = inst.parts[0][1]
    return params[case['attr']] if case['attr'] < len(params) else None


def judge(fam, case, res, strict):
    mode = 'strict' if strict else 'lenient'
    if 'crash' in res:
        return [('crash/%s/%s' % tuple(res['crash']), 'crash %s in %s' % tuple(res['crash']))]
    sev = res['esev']
    if case['form'] == 'none':
        return [] if sev >= 2 else [('base-rejected/%s' % case['ent'], 'conforming base rejected (covered by C01)')]
    if case['form'] == 'both':
        attrs = [a for _, a, _ in fam.p21_attrs(case['ent'])]
        must_fail = [a for a in attrs if not a.optional and (strict or fam.cat(a.type) not in FILLER)]
        if must_fail and sev > 1:
            return [('two-unset-accepted/%s/%s' % (mode, '+'.join(a.type.key() for a in attrs)),
                     'both attributes unset, %s is required and cannot be substituted: read with severity %d in %s mode' % (must_fail[0].name, sev, mode))]
        return []
    a = attr_of(fam, case)
    cat = fam.cat(a.type)
    tk = a.type.key()
    ctx = '%s/%s/%s%s%s' % (mode, tk, case['form'], '/complex-part' if case['complex'] else '', '/read-by-the-constructor' if case.get('ctor') else '')
    inc = any(i == 10 and st == 'I' for i, st, en, t in res.get('dump', []))
    if a.optional:
        if sev < 2:
            return [('optional-unset-rejected/%s' % ctx, 'unset OPTIONAL %s attribute rejected with severity %d (%s)' % (tk, sev, mode))]
        wv = written_value(res, case)
        if wv is not None and wv != 'unparsable' and wv[0] != 'null':
            return [('optional-unset-not-preserved/%s' % ctx, 'unset OPTIONAL %s written back as %s' % (tk, p21ref.render(wv)))]
        return []
    if strict or cat not in FILLER:
        if sev > 1:
            return [('required-unset-accepted/%s' % ctx, 'unset required %s attribute read with severity %d in %s mode (expected incomplete)' % (tk, sev, mode))]
        return []
    # lenient, INTEGER/REAL/NUMBER/STRING
    if sev != 2:
        return [('lenient-filler-severity/%s' % ctx, 'unset required %s attribute in lenient mode: severity %d, expected USERMSG (2)' % (tk, sev))]
    wv = written_value(res, case)
    kind, val = FILLER[cat]
    ok = wv is not None and wv != 'unparsable' and ((wv[0] == kind) or (cat == 'NUMBER' and wv[0] in ('int', 'real'))) and \
        ((wv[1] == val) if kind != 'str' else (wv[1] == b''))
    if not ok:
        return [('lenient-filler-value/%s' % ctx, 'substituted value written back as %s, expected %s' % (wv if wv in (None, 'unparsable') else p21ref.render(wv), {'int': '0', 'real': '0.', 'str': "''"}[kind]))]
    return []


def fams():
    return [smodel.family_K('fk', pairs='core'), smodel.family_I('fi')]


def replay(path):
    obj = json.load(open(path))
    case = obj['case']
    fam = {f.name: f for f in fams()}[case['family']]
    lib = build.schema_lib(fam.express(), 'plain')
    c = dict(case)
    c['want_log'] = True
    r = p21run.run_many(lib, [c], procs=1)[0]
    print('input instance:', [l for l in case['text'].split('\n') if l.startswith('#10')], 'strict' if case['strict'] else 'lenient')
    print('severity:', r.get('esev'), 'written:', [l for l in (r.get('out1') or b'').decode('latin1').split('\n') if l.startswith('#10')])
    v = judge(fam, case, r, case['strict'])
    print('verdict:', v)
    return 1 if v else 0


def main():
    args = common.parse_args(sys.argv[1:])
    if args.replay:
        sys.exit(replay(args.replay))
    chk = common.Check(PID, args.tier, deadline_s=args.deadline)
    chk.rule = ('strict in {off,on} x every entity of families K/I x every attribute position (own, inherited, in a complex part) replaced by `$` and by '
                'the empty parameter, each also in 8 lexical dresses (blank, comment, newline before/after the marker); state = (file, mode), transition = one read(+write) on the real STEPfile; oracle = the table in the property')
    chk.assumptions = ['defined types of INTEGER/REAL/NUMBER/STRING are judged like their base type', 'p21ref/smodel correct']
    for fam in fams():
        lib = build.schema_lib(fam.express(), 'plain')
        base = list(gen_cases(fam, args.tier))
        cases = []
        for c in base:
            for strict in (False, True):
                d = dict(c)
                d['strict'] = strict
                d['family'] = fam.name
                cases.append(d)
                # the same file read by a STEPfile whose constructor is given the file name and the mode (plain markers of the kind entities)
                if fam.name == 'fk' and c['form'] in ('none', '$', 'empty') and c['ent'].startswith(('e_', 'o_')) and not c['complex']:
                    cases.append(dict(d, ctor=True))
        results = p21run.run_many(lib, cases, chunksize=16)
        bad = set()
        for c, r in zip(cases, results):
            if c['form'] == 'none' and ('crash' in r or r['esev'] < 2):
                bad.add((c['ent'], c['complex']))
        chk.extra.setdefault('entities_with_failing_base', {})[fam.name] = sorted('%s%s' % (e, '(complex)' if cx else '') for e, cx in bad)
        p21todo = []
        # verdict keys of the plain forms ('$', 'empty'): a dressed form ('$ /* c */') that fails the same way is the same finding
        plain = {}
        for c, r in zip(cases, results):
            if c['form'] in ('$', 'empty') and (c['ent'], c['complex']) not in bad:
                plain[(c['ent'], c['attr'], c.get('part'), c['complex'], c['strict'], c['form'])] = set(k for k, _ in judge(fam, c, r, c['strict']))
        for c, r in zip(cases, results):
            if (c['ent'], c['complex']) in bad:
                continue
            chk.count(states=1, transitions=1)
            dress = None
            if c['form'] not in ('none', '$', 'empty', 'both'):
                dress = c['form']
                c = dict(c, form='empty' if dress.startswith('empty') else '$', dress=dress)
            v = judge(fam, c, r, c['strict'])
            if dress:
                same = plain.get((c['ent'], c['attr'], c.get('part'), c['complex'], c['strict'], c['form']), set())
                v = [(k if k in same else '%s/lex:%s' % (k, dress), w + ('' if k in same else ' [only with the marker written %r]' % dress)) for k, w in v]
            if c['form'] == 'both':
                chk.cls('%s/two-unset' % ('strict' if c['strict'] else 'lenient'))
            elif c['form'] != 'none':
                a = attr_of(fam, c)
                chk.cls('%s/%s/%s' % ('strict' if c['strict'] else 'lenient', 'optional' if a.optional else 'required', fam.cat(a.type)))
            if not v:
                chk.outcome('as-documented:sev=%s' % r.get('esev'))
                if c['form'] != 'none':
                    chk.sample({'entity': c['ent'], 'attr': c['attr'], 'form': c['form'], 'strict': c['strict'], 'severity': r.get('esev')}, maxn=8)
                    if c['ent'].startswith(('e_', 'o_')) or fam.name == 'fi':
                        p21todo.append((c, r))
            for kp, what in v:
                chk.outcome(kp.split('/')[0])
                chk.violation('%s/%s' % (PID, kp), what, dict(c))
        # exit status of the reference tool agrees with the severity: non-zero iff severity <= INCOMPLETE
        rcs = common.tmap(lambda cr: p21run.p21read(lib, cr[0]['text'], strict=cr[0]['strict'])[0], p21todo)
        for (c, r), rc in zip(p21todo, rcs):
            chk.count(transitions=1)
            want_fail = r['esev'] <= 1
            if (rc != 0) != want_fail or rc is None or rc < 0:
                chk.violation('%s/p21read-exit/%s/%s' % (PID, 'strict' if c['strict'] else 'lenient', rc), 'p21read exit %s but severity %s' % (rc, r['esev']), dict(c))
        # the required STRING attributes of the HEADER entities follow the same table as those of the data section
        if fam.name == 'fk':
            HT = "ISO-10303-21;\nHEADER;\nFILE_DESCRIPTION(('verif'),%s);\nFILE_NAME(%s);\nFILE_SCHEMA(('FK'));\nENDSEC;\nDATA;\n#1=TGT(11);\nENDSEC;\nEND-ISO-10303-21;\n"
            fn = ["'n'", "'2020-01-01T00:00:00'", "('au')", "('org')", "'pp'", "'os'", "'auth'"]
            hc = []
            for lit, form in (('$', '$'), ('', 'empty'), ('$ /* c */', '$+comment')):
                for strict in (False, True):
                    for k, an in ((0, 'name'), (1, 'time_stamp'), (4, 'preprocessor_version'), (5, 'originating_system'), (6, 'authorization')):
                        pp = list(fn)
                        pp[k] = lit
                        hc.append({'ent': 'file_name', 'attr_name': an, 'k': k, 'form': form, 'strict': strict, 'text': HT % ("'2;1'", ','.join(pp)), 'family': fam.name, 'header': True})
                    hc.append({'ent': 'file_description', 'attr_name': 'implementation_level', 'k': 1, 'form': form, 'strict': strict, 'text': HT % (lit, ','.join(fn)), 'family': fam.name, 'header': True})
            for c, r in zip(hc, p21run.run_many(lib, hc, chunksize=4)):
                chk.count(states=1, transitions=1)
                mode = 'strict' if c['strict'] else 'lenient'
                chk.cls('%s/header/STRING' % mode)
                ctx = '%s/header:%s.%s' % (mode, c['ent'], c['attr_name'])
                v = []
                if 'crash' in r:
                    v.append(('crash/%s/%s' % tuple(r['crash']), 'crash %s in %s' % tuple(r['crash'])))
                elif c['strict']:
                    if r['esev'] > 1:
                        v.append(('required-unset-accepted/%s' % ctx, 'unset required header attribute %s read with severity %d in strict mode (expected incomplete)' % (c['attr_name'], r['esev'])))
                else:
                    if r['esev'] != 2:
                        v.append(('lenient-filler-severity/%s' % ctx, 'unset required header attribute %s in lenient mode: severity %d, expected USERMSG (2)' % (c['attr_name'], r['esev'])))
                    elif c['attr_name'] != 'time_stamp':      # (the writer stamps the time itself)
                        m = re.search(r'%s\s*\((.*?)\);' % c['ent'].upper(), (r.get('out1') or b'').decode('latin1'), re.S)
                        got = None
                        if m:
                            try:
                                got = p21ref.parse_record(p21ref.Lexer(('X(%s)' % m.group(1)).encode('latin1')))[1][c['k']]
                            except Exception:
                                got = 'unparsable'
                        if not (isinstance(got, tuple) and got[0] == 'str' and got[1] == b''):
                            v.append(('lenient-filler-value/%s' % ctx, "substituted header value written back as %s, expected ''" % (got if not isinstance(got, tuple) else p21ref.render(got),)))
                if not v:
                    chk.outcome('as-documented:sev=%s' % r.get('esev'))
                for kp, what in v:
                    chk.outcome(kp.split('/')[0])
                    chk.violation('%s/%s' % (PID, kp), what, dict(c))
        # every way of asking the reference tool for strict mode means strict mode (the options may be grouped in one word), and no other option does
        if fam.name == 'fk':
            pick = [(c, r) for c, r in p21todo if c['ent'] in ('e_stri', 'e_inte', 'e_enum') and c['form'] == '$' and c.get('dress') is None][:8]
            SP = [(('-s',), True, True), (('-is',), True, True), (('-si',), True, True), (('-ts',), True, True), (('-st',), True, True), (('-its',), True, True), (('-tis',), True, True),
                  (('-i', '-s'), True, False), (('-s', '-i'), True, False), (('-t', '-s'), True, False),
                  ((), False, True), (('-i',), False, True), (('-t',), False, True), (('-it',), False, True), (('-i', '-t'), False, False)]
            jobs = [(c, sp) for c, r in pick if c['strict'] for sp in SP]
            rcs2 = common.tmap(lambda j: p21run.p21read(lib, j[0]['text'], opts=j[1][0], with_out=j[1][2])[0], jobs)
            ref = {}
            for (c, sp), rc in zip(jobs, rcs2):
                if sp[0] in (('-s',), ()):
                    ref[(c['ent'], sp[1])] = rc
            for (c, sp), rc in zip(jobs, rcs2):
                chk.count(states=1, transitions=1)
                chk.cls('p21read-options/%s' % ('strict' if sp[1] else 'lenient'))
                if rc != ref[(c['ent'], sp[1])]:
                    chk.violation('%s/p21read-options/%s/%s' % (PID, 'strict-requested-as' if sp[1] else 'lenient-with', ' '.join(sp[0]) or 'none'),
                                  'p21read %s on an unset required %s attribute exits %s, p21read %s exits %s' % (' '.join(sp[0]), c['ent'][2:], rc, '-s' if sp[1] else '(no option)', ref[(c['ent'], sp[1])]), dict(c, options=list(sp[0])))
                else:
                    chk.outcome('option-spelling-equivalent')
        chk.bounds[fam.name] = {'cases': len(cases)}
    if len(chk.outcomes) < 2 or not any(k.startswith('lenient/required/INTEGER') for k in chk.classes):
        chk.harness_error('vacuous: %s' % dict(chk.outcomes))
    sys.exit(chk.finish())


if __name__ == '__main__':
    main()
