// lazyInstMgr seam.  Commands:
//   open F            fresh lazyInstMgr, openFile(F)  -> "n <total>"
//   index             -> "X <id> <type keyword ('' for complex)>" for every id of the index
//   fwd | rev         -> "R <id> a,b,c"
//   deps <id>         -> "D a b c"
//   load <id>         -> "L <id> <ENTITY> same=<0|1> <hex STEPwrite text>"   (loads twice: same object?)
//   inv <id>          -> for the LOADED instance <id>: "V <inverse attr name> kind=<aggr|single|unset> ids=a,b"
//   loaded            -> "n <count>"
#include "config.h"
#include "drv_common.h"
#include "cllazyfile/lazyInstMgr.h"
#include "clstepcore/STEPaggrEntity.h"
#include "clstepcore/ExpDict.h"
#include <algorithm>

static lazyInstMgr * mgr = 0;
static SchemaInitFn initfn = 0;

static void print_refs( instanceRefs_t * refs ) {
    instanceRefs_t::cpair p = refs->begin();
    while( p.value != 0 ) {
        fprintf( g_out, "R %llu ", ( unsigned long long ) p.key );
        for( size_t i = 0; i < p.value->size(); i++ ) {
            fprintf( g_out, "%s%llu", i ? "," : "", ( unsigned long long ) p.value->at( i ) );
        }
        fputc( '\n', g_out );
        p = refs->next();
    }
}

int main( int argc, char ** argv ) {
    initfn = drv_load( argc, argv );
    fputs( "ready\n", g_out );
    done();
    std::string line;
    while( std::getline( std::cin, line ) ) {
        drv_logreset();
        std::istringstream ls( line );
        std::string cmd, a;
        ls >> cmd >> a;
        if( cmd == "quit" ) {
            break;
        } else if( cmd == "open" ) {
            mgr = new lazyInstMgr;     // the previous one is leaked on purpose
            mgr->initRegistry( initfn );
            mgr->openFile( a );
            fprintf( g_out, "n %lu sections %u\n", mgr->totalInstanceCount(), mgr->countDataSections() );
        } else if( !mgr ) {
            fputs( "ERR nofile\n", g_out );
        } else if( cmd == "index" ) {
            // (typeFromFile() moves the cursor of the same judy array: collect the keys first)
            std::vector< std::pair< instanceID, unsigned long > > ids;
            instanceStreamPos_t::cpair p = mgr->_instanceStreamPos.begin();
            while( p.value != 0 ) {
                ids.push_back( std::make_pair( p.key, ( unsigned long ) p.value->size() ) );
                p = mgr->_instanceStreamPos.next();
            }
            for( size_t i = 0; i < ids.size(); i++ ) {
                const char * t = mgr->typeFromFile( ids[i].first );
                fprintf( g_out, "X %llu %s n=%lu\n", ( unsigned long long ) ids[i].first, t ? t : "?", ids[i].second );
            }
        } else if( cmd == "fwd" ) {
            print_refs( mgr->getFwdRefs() );
        } else if( cmd == "rev" ) {
            print_refs( mgr->getRevRefs() );
        } else if( cmd == "deps" ) {
            instanceSet * s = mgr->instanceDependencies( strtoull( a.c_str(), 0, 10 ) );
            fputs( "D", g_out );
            if( s ) {
                for( instanceSet::const_iterator it = s->begin(); it != s->end(); ++it ) {
                    fprintf( g_out, " %llu", ( unsigned long long ) *it );
                }
                delete s;
            }
            fputc( '\n', g_out );
        } else if( cmd == "load" ) {
            instanceID id = strtoull( a.c_str(), 0, 10 );
            SDAI_Application_instance * i1 = mgr->loadInstance( id );
            SDAI_Application_instance * i2 = mgr->loadInstance( id );
            if( !i1 || i1 == ENTITY_NULL ) {
                fprintf( g_out, "L %llu NULL same=%d\n", ( unsigned long long ) id, i1 == i2 ? 1 : 0 );
            } else {
                std::ostringstream os;
                i1->STEPwrite( os );
                fprintf( g_out, "L %llu %s same=%d sev=%d %s\n", ( unsigned long long ) id, i1->EntityName(), i1 == i2 ? 1 : 0, ( int ) i1->Error().severity(), hexenc( os.str() ).c_str() );
            }
        } else if( cmd == "inv" ) {
            instanceID id = strtoull( a.c_str(), 0, 10 );
            SDAI_Application_instance * inst = mgr->loadInstance( id );
            if( !inst || inst == ENTITY_NULL ) {
                fputs( "ERR noinst\n", g_out );
            } else {
                const SDAI_Application_instance::iAMap_t & m = inst->getInvAttrs();
                for( SDAI_Application_instance::iAMap_t::const_iterator it = m.begin(); it != m.end(); ++it ) {
                    const Inverse_attribute * ia = it->first;
                    bool declAggr = ia->IsAggrType() != 0;
                    // read the member of the value holder that the inverse attribute's own declaration names, as the generated accessor of a
                    // client program does (a loader that fills the other member shows up as a sanitizer report or as garbage here)
                    bool isAggr = declAggr;
                    fprintf( g_out, "V %s owner=%s kind=%s stored=%s ids=", ia->Name(), ia->Owner().Name(), declAggr ? "aggr" : "single", isAggr ? "aggr" : "single" );
                    if( isAggr ) {
                        EntityAggregate * ea = it->second.a;
                        if( ea ) {
                            EntityNode * n = ( EntityNode * ) ea->GetHead();
                            int k = 0;
                            while( n ) {
                                fprintf( g_out, "%s%d", k++ ? "," : "", n->node ? n->node->StepFileId() : -1 );
                                n = ( EntityNode * ) n->NextNode();
                            }
                        } else {
                            fputs( "null", g_out );
                        }
                    } else {
                        SDAI_Application_instance * r = it->second.i;
                        if( r && r != ENTITY_NULL ) {
                            fprintf( g_out, "%d", r->StepFileId() );
                        }
                    }
                    // the same attribute asked for by its descriptor (what the generated accessors do): must be the very holder of the map entry
                    const iAstruct viaDesc = inst->getInvAttr( ia );
                    fprintf( g_out, " via=%d", ( declAggr ? ( ( void * ) viaDesc.a == ( void * ) it->second.a ) : ( ( void * ) viaDesc.i == ( void * ) it->second.i ) ) ? 1 : 0 );
                    fputc( '\n', g_out );
                }
            }
        } else if( cmd == "loaded" ) {
            fprintf( g_out, "n %lu\n", mgr->loadedInstanceCount() );
        } else {
            fputs( "ERR unknown\n", g_out );
        }
        done();
    }
    fflush( g_out );
    _exit( 0 );
}
