#!/usr/bin/python3
"""C12 - generators and the pretty printer are deterministic functions of their input.
Configuration enumeration: schemas x {ASLR off/on} x heap shift x cwd x input-path form x environment size
x LC_ALL x run order, for exp2cxx, exp2python, exppp and the build-time schema_scanner; byte comparison of
the output trees against the reference configuration."""
import sys, os, json, re, shutil, itertools
sys.path.insert(0, '/verif')
from vlib import common, build, gfam, exptools, drv

PID = 'C12'
TOOLS = ['exp2cxx', 'exp2python', 'exppp', 'exppp-default', 'schema_scanner']      # exppp-default: without -o, the printer names its output after the schema


def exe_of(tool):
    return build.ensure_scanner() if tool == 'schema_scanner' else build.tool('exppp' if tool == 'exppp-default' else tool, 'plain')

BASE = {'aslr': False, 'shift': 0, 'cwd': 'plain', 'path': 'abs', 'envpad': 0, 'lc': 'C', 'order': 'first'}
AXES = {
    'aslr': [False, True],
    'shift': [0, 16, 4096, 1 << 20],
    'cwd': ['plain', 'deep', 'space'],
    'path': ['abs', 'rel', 'symlink'],
    'envpad': [0, 65536],
    'lc': ['C', 'C.utf8', 'POSIX'],
    'order': ['first', 'after-other', 'repeat-same-dir'],
}


def configs(tier):
    out = [dict(BASE)]
    for ax, vals in AXES.items():
        for v in vals:
            if v != BASE[ax]:
                c = dict(BASE)
                c[ax] = v
                out.append(c)
    # layout pairs: ASLR x shift is the axis the known defects live on
    for a in (False, True):
        for s in AXES['shift']:
            c = dict(BASE, aslr=a, shift=s)
            if c not in out:
                out.append(c)
    if tier == 'thorough':
        for a, s, l, p in itertools.product((False, True), (0, 4096), AXES['lc'], AXES['path']):
            c = dict(BASE, aslr=a, shift=s, lc=l, path=p)
            if c not in out:
                out.append(c)
        for k in range(4):       # ASLR-on repetitions: the layout is not ours to choose
            out.append(dict(BASE, aslr=True, shift=16 * (k + 1), rep=k))
    return out


def run_cfg(job):
    """one tool run in one configuration; returns digest of the output tree"""
    tool, name, text, cfg = job
    root = drv.scratch_dir('c12')
    try:
        cwd = {'plain': 'o', 'deep': 'a/b/c/d/e/f/g/o', 'space': 'dir with space/o'}[cfg['cwd']]
        outdir = os.path.join(root, cwd)
        os.makedirs(outdir)
        srcdir = os.path.join(root, 'src')
        os.makedirs(srcdir)
        src = os.path.join(srcdir, 'schema_in.exp')
        with open(src, 'wb') as f:
            f.write(text if isinstance(text, bytes) else text.encode('latin1'))
        if cfg['path'] == 'abs':
            arg = src
        elif cfg['path'] == 'rel':
            arg = os.path.relpath(src, outdir)
        else:
            link = os.path.join(root, 'link_to_schema.exp')
            os.symlink(src, link)
            arg = link
        exe = exe_of(tool)
        env = dict(common.BASE_ENV)
        env['LC_ALL'] = cfg['lc']
        if cfg['envpad']:
            env['VERIF_PADDING'] = 'x' * cfg['envpad']
        if cfg['shift']:
            env['LD_PRELOAD'] = build.shim('heapshift')
            env['VERIF_HEAPSHIFT'] = str(cfg['shift'])
        cmd = ([] if cfg['aslr'] else ['setarch', '-R']) + [exe]
        if tool == 'exppp':
            cmd += ['-o', 'pp_out.exp']
        cmd.append(arg)
        import subprocess

        def once(a=arg, d=outdir):
            try:
                p = subprocess.run(cmd[:-1] + [a], cwd=d, env=env, stdout=subprocess.PIPE, stderr=subprocess.STDOUT, timeout=300)
                return p.returncode, p.stdout
            except subprocess.TimeoutExpired:
                return None, b''
        if cfg['order'] == 'after-other':
            # an earlier run on a different schema in a sibling directory of the same tree
            other = os.path.join(root, 'other')
            os.makedirs(other)
            osrc = os.path.join(srcdir, 'other.exp')
            with open(osrc, 'w') as f:
                f.write(gfam.MINI['m_inherit'])
            once(osrc, other)
        rc, out = once()
        if cfg['order'] == 'repeat-same-dir':
            rc, out = once()
        dg = exptools.tree_digest(outdir)
        # the scanner legitimately quotes the path by which the file was named
        if tool == 'schema_scanner':
            nd = {}
            for rel, h in dg.items():
                p = os.path.join(outdir, rel)
                data = open(p, 'rb').read()
                data = re.sub(rb'SCHEMA_TARGETS\("[^"]*"', b'SCHEMA_TARGETS("<input>"', data)
                nd[rel] = common.sha(data)
            dg = nd
        # second digest with the argument of SetBound1/2 masked: tells 'only a printed bound differs' from any other difference
        md = {}
        if tool == 'exp2cxx':
            for rel in dg:
                data = open(os.path.join(outdir, rel), 'rb').read()
                md[rel] = common.sha(re.sub(rb'(SetBound[12]\( )-?\d+( \))', rb'\1N\2', data))
        return {'rc': rc, 'digest': dg, 'masked': md, 'out': out[-300:].decode('latin1')}
    finally:
        shutil.rmtree(root, ignore_errors=True)


def diff_files(tool, name, text, cfg):
    """re-run base and cfg keeping the trees, return a short textual diff of the first differing file"""
    return None


def cfgname(cfg):
    return ','.join('%s=%s' % (k, v) for k, v in sorted(cfg.items()) if BASE.get(k) != v) or 'base'


def first_diff(tool, text, cfg, relpath):
    """contents of relpath under base and under cfg (for the report)"""
    import subprocess
    outs = []
    for c in (BASE, cfg):
        root = drv.scratch_dir('c12d')
        try:
            # reuse run_cfg but keep the file: simplest is to rerun and read before cleanup
            job = (tool, 'x', text, c)
            # inline minimal copy
            outdir = os.path.join(root, 'o')
            os.makedirs(outdir)
            src = os.path.join(root, 'schema_in.exp')
            with open(src, 'wb') as f:
                f.write(text if isinstance(text, bytes) else text.encode('latin1'))
            exe = exe_of(tool)
            env = dict(common.BASE_ENV)
            env['LC_ALL'] = c['lc']
            if c['shift']:
                env['LD_PRELOAD'] = build.shim('heapshift')
                env['VERIF_HEAPSHIFT'] = str(c['shift'])
            cmd = ([] if c['aslr'] else ['setarch', '-R']) + [exe] + (['-o', 'pp_out.exp'] if tool == 'exppp' else []) + [src]
            subprocess.run(cmd, cwd=outdir, env=env, stdout=subprocess.PIPE, stderr=subprocess.STDOUT, timeout=300)
            p = os.path.join(outdir, relpath)
            outs.append(open(p, 'rb').read() if os.path.exists(p) else None)
        finally:
            shutil.rmtree(root, ignore_errors=True)
    a, b = outs
    if a is None or b is None:
        return 'file exists only in one run'
    la, lb = a.split(b'\n'), b.split(b'\n')
    for x, y in zip(la, lb):
        if x != y:
            return '%r  !=  %r' % (x[:120], y[:120])
    return 'length %d != %d' % (len(a), len(b))


def classify_line(d):
    """class of a differing line, for the finding key"""
    m = re.search(r'(SetBound\d|AddAttr|new [A-Za-z_]+|#include|schema_name|def |class |import )', d or '')
    if m:
        return m.group(1).replace(' ', '')
    if re.search(r'\b\d{6,}\b', d or ''):
        return 'large-number'
    return 'other'


def replay(path):
    obj = json.load(open(path))
    c = obj['case']
    text = c['text'] if c.get('text') is not None else open(c['path'], 'rb').read()
    a = run_cfg((c['tool'], c['name'], text, BASE))
    b = run_cfg((c['tool'], c['name'], text, c['cfg']))
    diff = sorted(k for k in set(a['digest']) | set(b['digest']) if a['digest'].get(k) != b['digest'].get(k))
    print(c['tool'], c['name'], cfgname(c['cfg']), 'rc', a['rc'], b['rc'], 'differing files:', diff[:10])
    if diff:
        print(first_diff(c['tool'], text, c['cfg'], diff[0]))
    return 1 if (diff or a['rc'] != b['rc']) else 0


def main():
    args = common.parse_args(sys.argv[1:])
    if args.replay:
        sys.exit(replay(args.replay))
    chk = common.Check(PID, args.tier, deadline_s=args.deadline)
    build.ensure('plain')
    build.ensure_scanner()
    build.shim('heapshift')
    cfgs = configs(args.tier)
    chk.rule = ('schemas (generated family + shipped) x configurations {ASLR off/on} x heap shift {0,16,4096,1MiB} (LD_PRELOAD shim; exactly reproducible with ASLR off) x cwd '
                '{plain, deep, with a space} x input path {absolute, relative, symlink} x environment {empty, +64 KiB} x LC_ALL {C, C.utf8, POSIX} x run order {first, after a run on '
                'another schema, repeated in the same directory}: every one-axis deviation from the reference configuration plus the full ASLR x shift grid (thorough: products), '
                'for exp2cxx, exp2python, exppp, schema_scanner; state = (schema, tool, configuration), oracle = byte-identical output tree and exit status')
    chk.assumptions = ['only the locales C, C.utf8 and POSIX exist in this image', 'with ASLR on the layout is not chosen by the harness; differences seen only there are reported but cannot be replayed exactly',
                       'the scanner may quote the path by which the input was named (normalised)']
    schemas = [(n, t, None) for n, t in gfam.valid_schemas(args.tier)]
    # integer literals beyond 32 bits in every place a number can stand (what the front end makes of them must at least be the same every time)
    schemas.append(('bigint', 'SCHEMA bigint;\nCONSTANT big : INTEGER := 4000000000; huge : INTEGER := 99999999999999999999; edge : INTEGER := 2147483648;\nEND_CONSTANT;\n'
                    'TYPE txt = STRING (3000000000); END_TYPE;\nTYPE arr = ARRAY [1:5000000000] OF INTEGER; END_TYPE;\n'
                    'ENTITY e; a : INTEGER; l : LIST [0:4294967296] OF REAL;\n DERIVE d : INTEGER := a + 6000000000;\n WHERE w1 : a < 8589934592;\nEND_ENTITY;\nEND_SCHEMA;\n', None))
    # schemas of a multi-schema file that the generators write in several passes (their declarations wait for another schema): suffix files, appended headers
    sys.path.insert(0, '/verif/checks')
    import c17
    ext = [(n, t) for n, t in c17.order_dependent(args.tier) if n.startswith('n_ord_ext_')]
    for n, t in (ext if args.tier == 'thorough' else ext[:6]):
        schemas.append((n, t, None))
    schemas.append(('mutual_use', 'SCHEMA alpha;\nUSE FROM beta (worn_code);\nTYPE paint = ENUMERATION OF (red, green); END_TYPE;\nENTITY painted_pipe; finish : paint; wear : worn_code; END_ENTITY;\nEND_SCHEMA;\n'
                    'SCHEMA beta;\nUSE FROM alpha (paint);\nTYPE worn_code = ENUMERATION OF (fresh, used); END_TYPE;\nENTITY worn_item; colour : paint; state : worn_code; END_ENTITY;\nEND_SCHEMA;\n', None))
    for n, p in gfam.shipped():
        if args.tier == 'thorough' or any(k in n for k in ('ap219', 'ap203/', 'inverse_attr', 'array_bounds_expr', 'select_data_type', 'ifc2x3', 'multiple_rep')):
            schemas.append(('shipped/' + n, None, p))
    jobs = []
    for name, text, path in schemas:
        if text is None:
            text = open(path, 'rb').read()
        elif isinstance(text, str):
            text = text.encode('latin1')
        for tool in TOOLS:
            for cfg in cfgs:
                if path and args.tier == 'quick' and cfg != BASE and not (cfg.get('aslr') or cfg.get('shift') or cfg.get('order') != 'first'):
                    continue
                jobs.append((tool, name, text, cfg))
    results = common.pmap(run_cfg, jobs, chunksize=2)
    ref = {}
    single = {}
    for (tool, name, text, cfg), r in zip(jobs, results):
        if cfg == BASE:
            ref[(tool, name)] = r
        dev = [k for k in cfg if BASE.get(k) != cfg[k]]
        if len(dev) == 1:
            single[(tool, name, dev[0], cfg[dev[0]])] = r
    for (tool, name, text, cfg), r in zip(jobs, results):
        chk.count(states=1, transitions=1)
        chk.cls('%s/%s' % (tool, cfgname(cfg).split('=')[0]))
        b = ref[(tool, name)]
        if cfg == BASE:
            chk.outcome('reference rc=%s files=%d' % (r['rc'], min(len(r['digest']), 3)))
            continue
        if r['rc'] != b['rc']:
            chk.outcome('exit-differs')
            chk.violation('%s/exit-status/%s/%s' % (PID, tool, name), '%s on %s: exit %s in the reference configuration, %s with %s: %s' % (tool, name, b['rc'], r['rc'], cfgname(cfg), r['out'][-120:]),
                          {'tool': tool, 'name': name, 'cfg': cfg, 'text': text.decode('latin1') if len(text) < 20000 else None, 'path': None})
            continue
        diff = sorted(k for k in set(r['digest']) | set(b['digest']) if r['digest'].get(k) != b['digest'].get(k))
        if diff:
            chk.outcome('output-differs')
            d = first_diff(tool, text, cfg, diff[0]) if (not cfg.get('order') or cfg['order'] == 'first') and cfg['cwd'] == 'plain' and cfg['path'] == 'abs' else 'files: %s' % diff[:3]
            dev = sorted(k for k in cfg if BASE.get(k) != cfg[k])
            axis = dev[0]
            if len(dev) > 1:
                # a product configuration: if one of its axes alone gives this very output, the difference belongs to that axis
                alone = [a for a in dev if single.get((tool, name, a, cfg[a])) is not None and single[(tool, name, a, cfg[a])]['digest'] == r['digest']]
                axis = alone[0] if alone else '+'.join(dev)
            layout = axis in ('aslr', 'shift', 'aslr+shift')
            cl = classify_line(d)
            if r.get('masked') and r['masked'] == b.get('masked'):
                # nothing but the number printed by SetBound1/2 differs: an address-dependent value, whichever axis moved the addresses
                layout, cl = True, 'SetBound2'
            chk.violation('%s/output-differs/%s/%s/%s' % (PID, tool, 'layout' if layout else axis, cl),
                          '%s on %s: %d file(s) differ between the reference configuration and %s; first: %s: %s' % (tool, name, len(diff), cfgname(cfg), diff[0], d),
                          {'tool': tool, 'name': name, 'cfg': cfg, 'text': text.decode('latin1') if len(text) < 20000 else None, 'path': next((p for n, t, p in schemas if n == name), None)})
        else:
            chk.outcome('identical')
    chk.bounds = {'schemas': len(schemas), 'configurations': len(cfgs), 'runs': len(jobs)}
    chk.sample({'tool': 'exp2cxx', 'schema': 'ks', 'configuration': cfgname(cfgs[3])})
    if chk.outcomes.get('identical', 0) == 0:
        chk.harness_error('vacuous')
    sys.exit(chk.finish())


if __name__ == '__main__':
    main()
