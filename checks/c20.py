#!/usr/bin/python3
"""C20 - diagnostics name the construct that is actually wrong.
E-input: single-fault mutants with a unique planted token (semantic faults at every declaration position,
lexical faults at every token gap) x warning-class switches; oracle on the stderr of check-express."""
import sys, os, json, re, itertools
sys.path.insert(0, '/verif')
from vlib import common, build, gfam, exptools

PID = 'C20'
POSLESS_OK = (b'PE021', b'PE022', b'PE019', b'PE016')   # FILE_UNREADABLE/UNWRITABLE, SCHEMA_NOT_IN_OWN_SCHEMA_FILE, BAIL_OUT are raised without a symbol

WARN = r"""SCHEMA warn;
CONSTANT
  tiny : REAL := 1.0E-50;
END_CONSTANT;
ENTITY sup; a : INTEGER; END_ENTITY;
ENTITY sub SUBTYPE OF (sup); b : INTEGER;
 UNIQUE
  ur1 : SELF\sup.a, b;
END_ENTITY;
FUNCTION f (x : INTEGER) : INTEGER;
  LOCAL r : INTEGER := 0; END_LOCAL;
  IF TRUE THEN r := 1; ELSE r := 2; END_IF;
  IF FALSE THEN r := 3; END_IF;
  CASE x OF
    1 : r := 1;
    OTHERWISE : r := 0;
  END_CASE;
  RETURN (r);
END_FUNCTION;
END_SCHEMA;
"""
# which wording belongs to which class (my reading of the class names)
CLASS_WORDING = {'downcast': r'(?i)downcast', 'invariant_condition': r'condition is always', 'invalid_case': r'CASE label', 'unnecessary_qualifiers': r'unnecessary qualifiers',
                 'limits': r'extremely small magnitude', 'unsupported': r'Unsupported language feature', 'indexing': r'aggregation types'}
DOWNCAST = r"""SCHEMA dc;
ENTITY b1 SUPERTYPE OF (s1); END_ENTITY;
ENTITY s1 SUBTYPE OF (b1); att : INTEGER; END_ENTITY;
ENTITY b2 SUPERTYPE OF (s2); END_ENTITY;
ENTITY s2 SUBTYPE OF (b2); att : INTEGER; only2 : INTEGER; END_ENTITY;
TYPE sel = SELECT (b1, b2); END_TYPE;
ENTITY u; s : sel; p : b1;
WHERE w1 : s.att > 0; w2 : s.only2 > 0; w3 : p.att > 0;
END_ENTITY;
END_SCHEMA;
"""
CLASSES = ['indexing', 'downcast', 'unsupported', 'limits', 'unknown_subtype', 'circular_subtype', 'circular_select', 'entity_as_type',
           'invariant_condition', 'invalid_case', 'unnecessary_qualifiers']


def lexical_mutants(name, text, step=1):
    """insert one lexically bad token in every gap between two code tokens"""
    toks = gfam.code_tokens(text)
    bad = [('illegal-char', '@', '@'), ('illegal-char', '~', '~'), ('illegal-char', '$', '$'), ('non-ascii', '\xa7', '0xa7'),
           ('underscore-identifier', '_zq9', '_zq9'), ('encoded-bad-digit', '"0000004G"', 'G'), ('encoded-bad-count', '"000000041"', '9')]
    for k in range(0, len(toks), step):
        off = toks[k][2]
        for cls, ins, quoted in bad:
            yield {'kind': 'lexical', 'cls': cls, 'detail': 'gap#%d' % k, 'planted': quoted, 'name': name, 'text': text[:off] + ' ' + ins + ' ' + text[off:]}



catalogue = gfam.diagnostic_catalogue

def run_case(case):
    args = list(case.get('args', ('-w', 'all')))
    r = exptools.run_tool(case.get('tool', 'check-express'), case['text'].encode('latin1'), args=args, timeout=60, fname='zq_input_file.exp', extra_files=case.get('extra_files'))
    return {'rc': r.rc, 'out': r.out.decode('latin1'), 'errors': r.errors, 'warnings': r.warnings}


DIAG = re.compile(r'^(.*?)(--ERROR PE(\d+)|WARNING PW(\d+)): (.*)$')
_FMT = {}


def formats():
    """message formats of the diagnostics table (src/express/error.c), as regexes with one group per argument"""
    if _FMT:
        return _FMT
    src = open(common.REPO + '/src/express/error.c', encoding='latin1').read()
    for m in re.finditer(r'\[(\w+)\]\s*=\s*\{\s*SEVERITY_\w+\s*,\s*((?:"(?:[^"\\]|\\.)*"\s*)+)', src):
        fmt = ''.join(re.findall(r'"((?:[^"\\]|\\.)*)"', m.group(2)))
        if '%' not in fmt:
            continue
        parts = re.split(r'(%[sdcxf])', fmt)
        rx = ''
        kinds = []
        for p in parts:
            if re.fullmatch(r'%[sdcxf]', p):
                kinds.append(p[1])
                rx += {'s': r'(.*?)', 'd': r'(-?\d+)', 'c': r'(.?)', 'x': r'([0-9a-fA-F]+)', 'f': r'(-?[\d.]+)'}[p[1]]
            else:
                rx += re.escape(p.replace('\\"', '"'))
        _FMT[m.group(1)] = (re.compile('^' + rx + '$', re.S), kinds, fmt)
    return _FMT


EXPECT = {
    'undefined-type': ['UNDEFINED_TYPE'], 'undefined-supertype': ['UNKNOWN_SUPERTYPE'], 'undefined-subtype': ['UNKNOWN_SUBTYPE'],
    'undefined-schema': ['UNDEFINED_SCHEMA'], 'undefined-interfaced-item': ['REF_NONEXISTENT'], 'undefined-function': ['UNDEFINED_FUNC', 'UNDEFINED'],
    'undefined-attribute': ['UNDEFINED_ATTR', 'UNKNOWN_ATTR_IN_ENTITY'], 'bad-inverse': ['INVERSE_BAD_ATTR', 'INVERSE_BAD_ENTITY', 'UNDEFINED_TYPE', 'NOT_A_TYPE'],
    'duplicate-declaration': ['DUPLICATE_DECL', 'DUPLICATE_DECL_DIFF_FILE'], 'subtype-cycle': ['SUBSUPER_LOOP'], 'select-cycle': ['SELECT_LOOP'],
    'subtype-missing-supertype': ['MISSING_SUPERTYPE'], 'inherited-attribute-redeclared': ['OVERLOADED_ATTR'],
    'illegal-char': ['UNEXPECTED_CHARACTER'], 'non-ascii': ['NONASCII_CHAR'], 'underscore-identifier': ['BAD_IDENTIFIER'],
    'encoded-bad-digit': ['ENCODED_STRING_BAD_DIGIT'], 'encoded-bad-count': ['ENCODED_STRING_BAD_COUNT'], 'wrong-arg-count': ['WRONG_ARG_COUNT'],
}
INTERNAL_WORDS = {'entity', 'type', 'function', 'procedure', 'rule', 'schema', 'constant', 'variable', 'an entity', 'a type', 'syntax error', 'expression',
                  'attribute', 'select', 'enumeration', 'generic', 'aggregate', 'true', 'false', 'unknown'}


def judge(case, res):
    out = []
    rc = res['rc']
    cls = case['cls']
    if rc is None or rc < 0 or rc > 125:
        return [('abnormal-exit/%s/%s' % (cls, rc), 'check-express ended with status %s: %s' % (rc, res['out'][-200:]))]
    text_l = (case['text'] + ''.join(case.get('extra_files', {}).values())).lower()
    diags = []
    for l in res['out'].split('\n'):
        m = DIAG.match(l)
        if m:
            diags.append((m.group(1), m.group(3) or m.group(4), m.group(5), l))
    F = formats()
    planted = case['planted']
    alts = [a.lower() for a in case.get('planted_alts', [planted])]
    expected_seen = False
    quoted_ok = False
    for prefix, code, msg, l in diags:
        # (1) every diagnostic is attributed to the input file
        if not re.match(r'^.*zq_input_file\.exp:\d+: $', prefix):
            if not (prefix.strip() == '' and ('PE' + code).encode() in POSLESS_OK):
                out.append(('not-attributed/PE%s' % code, 'diagnostic without "<input file>:<line>:" prefix: %r' % l[:160]))
        # (2) quoted arguments are taken from the input
        for name, (rx, kinds, fmt) in sorted(F.items(), key=lambda kv: -len(re.sub(r'%[sdcxf]', '', kv[1][2]))):
            m = rx.match(msg.strip())
            if not m:
                continue
            if name in ('SYNTAX', 'SYNTAX_EXPECTING'):
                break        # parser messages quote grammar symbols, not input text
            if name in EXPECT.get(cls, ()) or name in case.get('expect', ()):
                expected_seen = True
            if name == 'DUPLICATE_DECL_DIFF_FILE' and case.get('extra_files'):
                # "Redeclaration of N.  Previous declaration was on line L in file F.": reported in the file of the second declaration, F is the file of the first
                here = os.path.basename(prefix.strip().rsplit(':', 2)[0]) if prefix.strip() else ''
                there = os.path.basename(m.group(3))
                first = case['detail'].split('/')[-1].replace('-first', '') + '.exp'
                if m.group(1).lower() in alts:
                    quoted_ok = True
                if there not in case['extra_files'] or there == here or (first in case['extra_files'] and there != first):
                    out.append(('wrong-file/DUPLICATE_DECL_DIFF_FILE', 'reported in %s, names %s as the file of the previous declaration; the first declaration is in %s' % (here, there, first)))
                break
            for k, g in zip(kinds, m.groups()):
                if k == 's':
                    a = g.strip().strip("`'\"").lower()
                    if any(x in a for x in alts) and a:
                        quoted_ok = True
                    if a == '' or (a not in text_l and a not in INTERNAL_WORDS and not all(w in text_l or w in INTERNAL_WORDS for w in re.findall(r'[a-z_0-9]+', a))):
                        out.append(('argument-not-from-input/%s/%s' % (name, 'empty' if a == '' else 'foreign'), 'diagnostic %r quotes %r, which does not occur in the input' % (msg[:120], g)))
                elif k == 'c':
                    if g == '' or g not in case['text']:
                        out.append(('argument-not-from-input/%s/%s' % (name, 'empty' if g == '' else 'foreign'), 'diagnostic %r quotes character %r, which does not occur in the input' % (msg[:120], g)))
                    elif g.lower() in alts:
                        quoted_ok = True
                elif k == 'x':
                    if ('0x' + g.lower()) in alts:
                        quoted_ok = True
                    elif cls == 'non-ascii':
                        out.append(('argument-not-from-input/%s/foreign' % name, 'diagnostic %r names byte 0x%s, planted %s' % (msg[:120], g, planted)))
                elif k == 'd' and name == 'ENCODED_STRING_BAD_COUNT':
                    if g in alts:
                        quoted_ok = True
                    else:
                        out.append(('wrong-count/%s' % name, 'diagnostic %r, the literal has %s digits' % (msg[:120], planted)))
            if name == 'WRONG_ARG_COUNT' and cls == 'wrong-arg-count':
                fn, used, exp = m.group(1), int(m.group(2)), int(m.group(3))
                if (fn.lower(), used, exp) != (planted.lower(), case['used'], case['expected']):
                    out.append(('wrong-count/WRONG_ARG_COUNT', 'diagnostic %r, the call to %s has %d arguments and %d are declared' % (msg[:120], planted, case['used'], case['expected'])))
                else:
                    quoted_ok = True
            break
    # (3) the diagnostic raised for this fault quotes the planted token
    if expected_seen and not quoted_ok:
        out.append(('wrong-argument/%s' % cls, 'planted %r, diagnostics say: %s' % (planted, '; '.join(d[2] for d in diags)[:200])))
    res['_expected_seen'] = expected_seen
    res['_n'] = len(diags)
    return out


def warning_invariance(base, runs):
    """base/run: res dicts; runs: {(flag, cls): res} -> violations"""
    out = []

    def split(res, c):
        keep = []
        for l in res['out'].split('\n'):
            if 'usage:' in l:
                return None
            keep.append(l)
        return keep
    return out


def replay(path):
    obj = json.load(open(path))
    case = obj['case']
    res = run_case(case)
    print(res['out'][-1500:])
    print('rc', res['rc'])
    if case['kind'] == 'switch':
        return 1
    v = judge(case, res)
    print('verdict', v)
    return 1 if v else 0


def main():
    args = common.parse_args(sys.argv[1:])
    if args.replay:
        sys.exit(replay(args.replay))
    chk = common.Check(PID, args.tier, deadline_s=args.deadline)
    build.ensure('plain')
    chk.rule = ('every single-fault mutant with a unique planted token: semantic faults of the C04 classes at every declaration position, 7 lexical faults '
                '(illegal character, non-ASCII byte, _identifier, bad encoded-string digit / digit count) in every token gap, wrong argument counts; '
                'plus every warning class x {no flag, -w c, -i c} (and pairs) on schemas that raise warnings; oracle on the diagnostics of check-express')
    chk.assumptions = ['a position-less diagnostic is tolerated only for the codes raised without a symbol', 'the planted token must appear (case-insensitively) in at least one diagnostic']
    cases = []
    valid = gfam.valid_schemas(args.tier)
    for name, text in valid:
        for cls, detail, planted, mt in gfam.semantic_mutants(name, text):
            if not mt:
                continue
            c = {'kind': 'semantic', 'cls': cls, 'detail': detail, 'planted': planted, 'name': name, 'text': mt}
            if cls in ('subtype-cycle', 'select-cycle'):
                c['planted_alts'] = ['zq_cyc1', 'zq_cyc2', 'zq_cyc3', 'zq_sel1', 'zq_sel2', 'zq_sel3', 'zq_sc1', 'zq_sc2', 'zq_sc3']
            if cls == 'subtype-missing-supertype':
                c['planted_alts'] = ['zq_sub', 'zq_sup']
            if cls == 'inherited-attribute-redeclared':
                c['planted_alts'] = ['zq_attr']
            if cls == 'bad-inverse':
                c['planted_alts'] = [planted, 'own', 'back', 'zq_o', 'zq_i']
            cases.append(c)
    for name in ('m_simple', 'm_enum', 'm_func', 'm_strlit') + (('ks', 'multi') if args.tier == 'thorough' else ()):
        text = dict(valid)[name]
        for c in lexical_mutants(name, text, 1 if args.tier == 'thorough' or name != 'm_func' else 2):
            cases.append(c)
    # wrong argument counts
    mf = dict(valid)['m_func']
    for old, new, fn, used, exp in (('g (v, 3)', 'g (v)', 'g', 1, 2), ('g (v, 3)', 'g (v, 3, 4)', 'g', 3, 2), ('h ([v, v])', 'h ([v, v], 1)', 'h', 2, 1),
                                    ('g (v, 3)', 'v + g', 'g', 0, 2), ('h ([v, v])', 'h', 'h', 0, 1)):
        cases.append({'kind': 'argcount', 'cls': 'wrong-arg-count', 'detail': new, 'planted': fn, 'used': used, 'expected': exp, 'name': 'm_func', 'text': mf.replace(old, new)})
    # schemas living in files of their own (found through EXPRESS_PATH): a fault planted in the k-th of three external files must be reported
    # under that file's name, whichever file the tool looked up last
    ext = lambda n, bad: 'SCHEMA ext_%s;\nENTITY thing_%s;\n  x : %s;\nEND_ENTITY;\nEND_SCHEMA;\n' % (n, n, 'zq_missing_in_%s' % n if bad else 'INTEGER')
    for order in itertools.permutations('abc'):
        for badn in 'abc':
            main = 'SCHEMA zq_main;\n' + ''.join('REFERENCE FROM ext_%s (thing_%s);\n' % (n, n) for n in order) + 'ENTITY top;\n' + ''.join('  f%s : thing_%s;\n' % (n, n) for n in order) + 'END_ENTITY;\nEND_SCHEMA;\n'
            cases.append({'kind': 'multi-file', 'cls': 'undefined-type', 'detail': 'in ext_%s, order %s' % (badn, ''.join(order)), 'planted': 'zq_missing_in_' + badn, 'name': 'files', 'text': main,
                          'extra_files': {'ext_%s.exp' % n: ext(n, n == badn) for n in 'abc'}, 'expect_file': 'ext_%s.exp' % badn})
    cases += list(catalogue())
    for name, text, planted in gfam.duplicate_kinds():
        cases.append({'kind': 'catalogue', 'cls': 'duplicate-declaration', 'expect': ['DUPLICATE_DECL'], 'detail': name, 'planted': planted, 'name': 'dupkinds', 'text': text})
    results = common.pmap(run_case, cases, chunksize=8)
    for c, res in zip(cases, results):
        chk.count(states=1, transitions=1)
        chk.cls(c['cls'] if c['kind'] != 'multi-file' else 'multi-file')
        v = judge(c, res)
        if c.get('extra_files'):
            v = [x for x in v if not x[0].startswith('not-attributed')]     # (attributed to one of the other files: judged by the specific rules)
        if c['kind'] == 'multi-file':
            named = [l for l in res['out'].split('\n') if c['planted'] in l]
            if not named:
                v.append(('multi-file/not-reported', 'the undefined type %s in %s is not reported: %s' % (c['planted'], c['expect_file'], res['out'][-200:])))
            for l in named:
                if not re.search(r'(^|/)%s:\d+:' % re.escape(c['expect_file']), l):
                    v.append(('multi-file/attributed-to-another-file', 'the fault is in %s, the diagnostic says: %s' % (c['expect_file'], l.strip()[-160:])))
        if not v:
            chk.outcome('named-correctly' if res.get('_expected_seen') else ('other-diagnostic' if res.get('_n') else 'no-diagnostic'))
            first = next((l for l in res['out'].split('\n') if DIAG.match(l)), '')
            chk.sample({'fault': c['cls'], 'planted': c['planted'], 'diagnostic': first[:140]}, maxn=10)
        for kp, what in v:
            chk.outcome(kp.split('/')[0])
            chk.violation('%s/%s' % (PID, kp), what, dict(c))
    # ---- warning switches
    # an entity with several supertypes that mentions attributes inherited from each of them (bare, through SELF, in DERIVE and WHERE): every mention is
    # of an INHERITED attribute, nothing is cast down - any 'downcast' warning names an entity that has nothing to do with one
    MI_INHERITED = ('SCHEMA mi_inh;\nENTITY s1; a1 : REAL; END_ENTITY;\nENTITY s2; a2 : REAL; END_ENTITY;\nENTITY s3; a3 : REAL; END_ENTITY;\n'
                    'ENTITY m SUBTYPE OF (s1, s2, s3); own : REAL;\n DERIVE\n  d1 : REAL := a1 + a2 + a3 + own;\n  d2 : REAL := SELF.a3 + SELF.a2 + SELF.a1;\n'
                    ' WHERE\n  w1 : a2 > 0.0;\n  w2 : SELF.a3 > a1;\n  w3 : SELF\\s2.a2 > SELF\\s3.a3;\nEND_ENTITY;\n'
                    'ENTITY n SUBTYPE OF (m); deep : REAL;\n WHERE\n  w1 : a3 + a2 + a1 + own + deep > 0.0;\nEND_ENTITY;\nEND_SCHEMA;\n')
    wschemas = [('warn', WARN), ('downcast', DOWNCAST), ('ks', gfam.KS), ('mi_inherited', MI_INHERITED)]
    want = ('unique_qualifiers', 'select_lookup_enum', 'aggregate_index_attr', 'ap203/ap203.exp', 'pdm_schema') + (('ap209', 'ap210e3', 'ap239') if args.tier == 'thorough' else ())
    for nm, p in gfam.shipped():
        if any(k in nm for k in want):
            wschemas.append((nm, open(p, encoding='latin1').read()))
    # one invalid schema too: the verdict must not change
    wschemas.append(('undefined-type', gfam.MINI['m_simple'].replace('INTEGER', 'zq_undefined', 1)))
    classes = [c for c in CLASSES if c not in ('unknown_subtype', 'circular_subtype', 'circular_select', 'entity_as_type')]   # named ERRORs cannot be switched
    sw = []
    for nm, text in wschemas:
        sw.append({'kind': 'switch', 'cls': 'none', 'name': nm, 'text': text, 'args': []})
        sw.append({'kind': 'switch', 'cls': 'all', 'name': nm, 'text': text, 'args': ['-w', 'all']})
        for c in classes:
            sw.append({'kind': 'switch', 'cls': c, 'flag': '-w', 'name': nm, 'text': text, 'args': ['-w', c]})
            sw.append({'kind': 'switch', 'cls': c, 'flag': '-i', 'name': nm, 'text': text, 'args': ['-w', 'all', '-i', c]})
            sw.append({'kind': 'switch', 'cls': c, 'flag': 'i-alone', 'name': nm, 'text': text, 'args': ['-i', c]})
        if args.tier == 'thorough':
            for c in classes:
                for c2 in classes:
                    if c != c2:
                        sw.append({'kind': 'switch', 'cls': c + '+' + c2, 'flag': '-w-w', 'name': nm, 'text': text, 'args': ['-w', c, '-w', c2]})
    sres = common.pmap(run_case, sw, chunksize=4)
    norm = lambda l: re.sub(r'^\S*zq_input_file\.exp', 'F', l)
    errs = lambda x: sorted(norm(l) for l in x['out'].split('\n') if '--ERROR' in l)
    warns = lambda x: set(norm(l) for l in x['out'].split('\n') if 'WARNING PW' in l)
    runs = {}
    for c, r in zip(sw, sres):
        runs[(c['name'], c['cls'], c.get('flag'))] = (c, r)
    base = {nm: runs[(nm, 'none', None)][1] for nm, _ in wschemas}
    allw = {nm: runs[(nm, 'all', None)][1] for nm, _ in wschemas}
    for (nm, cls, flag), (c, r) in runs.items():
        chk.count(states=1, transitions=1)
        chk.cls('switch/%s' % (flag or cls))
        b = base[nm]
        ctx = '%s/%s' % (flag or 'w', cls)
        if r['rc'] is None or r['rc'] < 0 or r['rc'] > 125 or 'usage:' in r['out']:
            chk.outcome('switch-rejected')
            chk.violation('%s/switch/abnormal/%s/%s' % (PID, ctx, r['rc']), 'check-express %s: status %s, %s' % (' '.join(c['args']), r['rc'], r['out'][:80]), dict(c, text=c['text'][:3000]))
            continue
        bad = False
        if r['rc'] != b['rc']:
            chk.violation('%s/switch/verdict-changed/%s' % (PID, ctx), 'exit status %s -> %s with %s on %s' % (b['rc'], r['rc'], ' '.join(c['args']), nm), dict(c, text=c['text'][:3000]))
            bad = True
        if errs(r) != errs(b):
            chk.violation('%s/switch/errors-changed/%s' % (PID, ctx), 'ERROR lines differ with %s on %s' % (' '.join(c['args']), nm), dict(c, text=c['text'][:3000]))
            bad = True
        W0, WA, W = warns(b), warns(allw[nm]), warns(r)
        if flag == '-w':
            Wc = W - W0
            ri = runs[(nm, cls, '-i')][1]
            Ac = WA - warns(ri)
            if not (W >= W0):
                chk.violation('%s/switch/enable-removes-warnings/%s' % (PID, cls), '-w %s removes warnings printed without it' % cls, dict(c, text=c['text'][:3000]))
                bad = True
            if Wc != Ac:
                chk.violation('%s/switch/class-differs-between-enable-and-ignore/%s' % (PID, cls), 'on %s: -w %s adds %d line(s), -w all -i %s removes %d line(s)' % (nm, cls, len(Wc), cls, len(Ac)), dict(c, text=c['text'][:3000]))
                bad = True
            if not (W <= WA):
                chk.violation('%s/switch/enable-adds-foreign/%s' % (PID, cls), '-w %s prints warnings that -w all does not' % cls, dict(c, text=c['text'][:3000]))
                bad = True
            if Wc:
                chk.outcome('switch-effective')
        elif flag == '-i':
            if not (W <= WA):
                chk.violation('%s/switch/ignore-adds-warnings/%s' % (PID, cls), '-w all -i %s prints warnings that -w all does not' % cls, dict(c, text=c['text'][:3000]))
                bad = True
        elif flag == 'i-alone':
            if W != W0:
                chk.violation('%s/switch/ignore-alone-changes-warnings/%s' % (PID, cls), '-i %s alone changes the warnings printed (%d -> %d lines)' % (cls, len(W0), len(W)), dict(c, text=c['text'][:3000]))
                bad = True
        elif flag == '-w-w':
            c1, c2 = cls.split('+')
            exp = warns(runs[(nm, c1, '-w')][1]) | warns(runs[(nm, c2, '-w')][1])
            if W != exp:
                chk.violation('%s/switch/pair-not-union/%s' % (PID, cls), '-w %s -w %s is not the union of the two' % (c1, c2), dict(c, text=c['text'][:3000]))
                bad = True
        chk.outcome('switch-invariant' if not bad else 'switch-violation')
    for l in sorted(warns(allw['mi_inherited'])):
        if re.search(CLASS_WORDING['downcast'], l):
            chk.violation('%s/spurious-warning/downcast/inherited-attribute' % PID, 'an attribute inherited from a supertype is mentioned, the front end warns: %s' % l.strip()[-120:],
                          {'kind': 'switch', 'name': 'mi_inherited', 'cls': 'all', 'text': MI_INHERITED, 'args': ['-w', 'all']})
    # several -i switches on one command line: each one is honoured (the result is -w all minus the lines of every named class)
    pair_jobs = []
    for nm, text in wschemas:
        WA = warns(allw[nm])
        eff = [c for c in classes if WA - warns(runs[(nm, c, '-i')][1])]
        others = [c for c in classes if c not in eff][:1]
        for c1 in eff:
            for c2 in eff + others:
                if c1 != c2:
                    pair_jobs.append({'kind': 'switch', 'cls': c1 + '+' + c2, 'flag': '-i-i', 'name': nm, 'text': text, 'args': ['-w', 'all', '-i', c1, '-i', c2]})
                    pair_jobs.append({'kind': 'switch', 'cls': c2 + '+' + c1, 'flag': '-i-i', 'name': nm, 'text': text, 'args': ['-w', 'all', '-i', c2, '-i', c1]})
    seenp = set()
    pair_jobs = [j for j in pair_jobs if (j['name'], tuple(j['args'])) not in seenp and not seenp.add((j['name'], tuple(j['args'])))]
    for c, r in zip(pair_jobs, common.pmap(run_case, pair_jobs, chunksize=4)):
        chk.count(states=1, transitions=1)
        chk.cls('switch/-i-i')
        nm = c['name']
        c1, c2 = c['args'][3], c['args'][5]
        WA = warns(allw[nm])
        exp = WA - (WA - warns(runs[(nm, c1, '-i')][1])) - (WA - warns(runs[(nm, c2, '-i')][1]))
        if r['rc'] != base[nm]['rc'] or errs(r) != errs(base[nm]):
            chk.violation('%s/switch/verdict-changed/-i-i/%s' % (PID, c['cls']), 'verdict or ERROR lines change with %s on %s' % (' '.join(c['args']), nm), dict(c, text=c['text'][:3000]))
        elif warns(r) != exp:
            chk.outcome('switch-violation')
            chk.violation('%s/switch/two-ignores-not-both-honoured' % PID, 'on %s: %s prints %d warning line(s), -w all minus both classes has %d (first -i lost: %s, second lost: %s)' % (
                nm, ' '.join(c['args']), len(warns(r)), len(exp), bool(warns(r) & (WA - warns(runs[(nm, c1, '-i')][1]))), bool(warns(r) & (WA - warns(runs[(nm, c2, '-i')][1])))), dict(c, text=c['text'][:3000]))
        else:
            chk.outcome('switch-invariant')
    # the classes partition -w all (no warning outside every named class changes, none belongs to two classes)
    for nm, _ in wschemas:
        seen = {}
        for c in classes:
            for l in warns(runs[(nm, c, '-w')][1]) - warns(base[nm]):
                if l in seen:
                    chk.violation('%s/switch/line-in-two-classes/%s+%s' % (PID, seen[l], c), 'warning %r is switched by two classes' % l[:100], {'kind': 'switch', 'name': nm})
                seen[l] = c
    # a warning belongs to the class its wording names (reference table from the class names and the message texts, not from the tool's own table):
    # it must appear with -w <class> and disappear with -w all -i <class>
    seen_words = set()
    for nm, _ in wschemas:
        for c, rx in CLASS_WORDING.items():
            L = set(l for l in warns(allw[nm]) if re.search(rx, l))
            if not L:
                continue
            seen_words.add(c)
            on = warns(runs[(nm, c, '-w')][1])
            off = warns(runs[(nm, c, '-i')][1])
            for l in sorted(L - on):
                chk.violation('%s/switch/not-enabled-by-its-class/%s/%s' % (PID, c, re.search(r'PW\d+', l).group(0) if re.search(r'PW\d+', l) else '?'),
                              'on %s: %r is printed with -w all but not with -w %s' % (nm, l[:100], c), {'kind': 'switch', 'name': nm, 'cls': c, 'text': dict(wschemas)[nm][:3000], 'args': ['-w', c]})
            for l in sorted(L & off):
                chk.violation('%s/switch/not-ignored-by-its-class/%s/%s' % (PID, c, re.search(r'PW\d+', l).group(0) if re.search(r'PW\d+', l) else '?'),
                              'on %s: %r is still printed with -w all -i %s' % (nm, l[:100], c), {'kind': 'switch', 'name': nm, 'cls': c, 'text': dict(wschemas)[nm][:3000], 'args': ['-w', 'all', '-i', c]})
    chk.extra['classes_with_a_warning_raised'] = sorted(seen_words)
    codes = sorted(set(re.findall(r'PW\d+', ' '.join(l for nm, _ in wschemas for l in warns(allw[nm])))))
    chk.extra['warning_codes_raised'] = codes
    for need in ('PW014', 'PW015'):
        if need not in codes:
            chk.harness_error('vacuous: no schema raises %s (%s)' % (need, codes))
    chk.extra['warning_counts_with_w_all'] = {k: v['warnings'] for k, v in allw.items()}
    chk.bounds = {'fault_cases': len(cases), 'switch_runs': len(sw)}
    if chk.outcomes.get('named-correctly', 0) == 0 or chk.outcomes.get('switch-effective', 0) == 0:
        chk.harness_error('vacuous: %s, warnings with -w all %s' % (dict(chk.outcomes), {k: v['warnings'] for k, v in allw.items()}))
    sys.exit(chk.finish())


if __name__ == '__main__':
    main()
