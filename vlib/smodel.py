"""Abstract schema model for the generator's supported subset.  From one model: EXPRESS text, the
expected dictionary, the Part 21 view (attribute order + literal alternatives).  The meaning of a
schema is known here without consulting the front end under test."""
import itertools

SIMPLE = ('INTEGER', 'REAL', 'NUMBER', 'STRING', 'BINARY', 'BOOLEAN', 'LOGICAL')


class Simple:
    """width: REAL (6), STRING (10) [FIXED], BINARY (8) [FIXED] - does not change the Part 21 literal"""

    def __init__(self, name, width=None, fixed=False):
        assert name in SIMPLE
        self.name, self.width, self.fixed = name, width, fixed

    def express(self):
        return self.name + (' (%d)' % self.width if self.width is not None else '') + (' FIXED' if self.fixed else '')

    def key(self):
        return self.name.lower()


class Named:
    """reference to a TYPE or ENTITY by name"""

    def __init__(self, name):
        self.name = name

    def express(self):
        return self.name

    def key(self):
        return self.name


class Aggr:
    def __init__(self, kind, lo, hi, elem, unique=False, optional=False):
        assert kind in ('ARRAY', 'LIST', 'BAG', 'SET')
        self.kind, self.lo, self.hi, self.elem, self.unique, self.optional = kind, lo, hi, elem, unique, optional

    def express(self):
        b = ''
        if self.lo is not None:
            b = ' [%s:%s]' % (self.lo, '?' if self.hi is None else self.hi)
        return '%s%s OF %s%s%s' % (self.kind, b, 'OPTIONAL ' if self.optional else '', 'UNIQUE ' if self.unique else '', self.elem.express())

    def key(self):
        return '%s_%s' % (self.kind.lower(), self.elem.key())


class TypeDecl:
    """body: a type expression (Simple/Named/Aggr), ('enum', [items]) or ('select', [member names])"""

    def __init__(self, name, body):
        self.name, self.body = name, body

    def express(self):
        if isinstance(self.body, tuple) and self.body[0] == 'enum':
            return 'TYPE %s = ENUMERATION OF (%s); END_TYPE;' % (self.name, ', '.join(self.body[1]))
        if isinstance(self.body, tuple) and self.body[0] == 'select':
            return 'TYPE %s = SELECT (%s); END_TYPE;' % (self.name, ', '.join(self.body[1]))
        return 'TYPE %s = %s; END_TYPE;' % (self.name, self.body.express())


class Attr:
    """explicit attribute; redeclares=<supertype> for 'SELF\\super.name : T' (same Part 21 slot, specialised type)"""

    def __init__(self, name, type, optional=False, redeclares=None):
        self.name, self.type, self.optional, self.redeclares = name, type, optional, redeclares


class Derived:
    """DERIVE attribute; redeclares=(super_entity) when it is SELF\\super.name"""

    def __init__(self, name, type, expr, redeclares=None):
        self.name, self.type, self.expr, self.redeclares = name, type, expr, redeclares


class Inverse:
    def __init__(self, name, entity, attr, aggr=None, lo=None, hi=None):
        self.name, self.entity, self.attr, self.aggr, self.lo, self.hi = name, entity, attr, aggr, lo, hi


class Entity:
    def __init__(self, name, attrs=(), supers=(), abstract=False, supexpr=None, derived=(), inverse=(), unique=(), where=()):
        self.name = name
        self.attrs = list(attrs)
        self.supers = list(supers)
        self.abstract = abstract
        self.supexpr = supexpr      # EXPRESS text of the supertype expression, e.g. 'ONEOF (b, c)'
        self.derived = list(derived)
        self.inverse = list(inverse)
        self.unique = list(unique)
        self.where = list(where)

    def express(self):
        h = 'ENTITY %s' % self.name
        if self.abstract and self.supexpr:
            h += '\n  ABSTRACT SUPERTYPE OF (%s)' % self.supexpr
        elif self.abstract:
            h += '\n  ABSTRACT SUPERTYPE'
        elif self.supexpr:
            h += '\n  SUPERTYPE OF (%s)' % self.supexpr
        if self.supers:
            h += '\n  SUBTYPE OF (%s)' % ', '.join(self.supers)
        out = [h + ';']
        for a in self.attrs:
            out.append('  %s : %s%s;' % (('SELF\\%s.%s' % (a.redeclares, a.name)) if a.redeclares else a.name, 'OPTIONAL ' if a.optional else '', a.type.express()))
        if self.derived:
            out.append(' DERIVE')
            for d in self.derived:
                nm = ('SELF\\%s.%s' % (d.redeclares, d.name)) if d.redeclares else d.name
                out.append('  %s : %s := %s;' % (nm, d.type.express(), d.expr))
        if self.inverse:
            out.append(' INVERSE')
            for v in self.inverse:
                t = v.entity
                if v.aggr:
                    t = '%s [%s:%s] OF %s' % (v.aggr, v.lo if v.lo is not None else 0, '?' if v.hi is None else v.hi, v.entity)
                out.append('  %s : %s FOR %s;' % (v.name, t, v.attr))
        if self.unique:
            out.append(' UNIQUE')
            for k, u in enumerate(self.unique):
                out.append('  ur%d : %s;' % (k + 1, u))
        if self.where:
            out.append(' WHERE')
            for k, w in enumerate(self.where):
                out.append('  wr%d : %s;' % (k + 1, w))
        out.append('END_ENTITY;')
        return '\n'.join(out)


class Schema:
    def __init__(self, name, types=(), entities=()):
        self.name = name
        self.types = list(types)
        self.entities = list(entities)
        self._t = None
        self.noinst = set()

    def add(self, *decls):
        for d in decls:
            (self.types if isinstance(d, TypeDecl) else self.entities).append(d)
        self._t = None

    def tmap(self):
        if self._t is None:
            self._t = ({t.name: t for t in self.types}, {e.name: e for e in self.entities})
        return self._t

    def express(self):
        out = ['SCHEMA %s;' % self.name]
        out += [t.express() for t in self.types]
        out += [e.express() for e in self.entities]
        out.append('END_SCHEMA;')
        return '\n'.join(out) + '\n'

    # ---- inheritance
    def ancestors_ordered(self, ename, seen=None):
        """supertypes first (declaration order, depth first, each once), then the entity: the order
        in which the internal mapping of Part 21 lists inherited attributes."""
        if seen is None:
            seen = []
        e = self.tmap()[1][ename]
        for s in e.supers:
            self.ancestors_ordered(s, seen)
        if ename not in seen:
            seen.append(ename)
        return seen

    def p21_attrs(self, ename):
        """[(owner entity, Attr, redeclared_as_derived: bool)] in Part 21 order."""
        ents = self.tmap()[1]
        order = self.ancestors_ordered(ename)
        redecl = set()
        for n in order:
            for d in ents[n].derived:
                if d.redeclares:
                    redecl.add((d.redeclares, d.name))
        out = []
        for n in order:
            for a in ents[n].attrs:
                if a.redeclares:
                    # an explicit redeclaration keeps the slot of the attribute it redeclares and specialises its type
                    for k, (o, b, r) in enumerate(out):
                        if o == a.redeclares and b.name == a.name:
                            out[k] = (o, a, r)
                    continue
                out.append((n, a, (n, a.name) in redecl))
        # a redeclaration as DERIVE of an (explicitly redeclared) attribute
        return [(o, a, r or (a.redeclares is not None and any((n2, a.name) in redecl for n2 in order))) for o, a, r in out]

    def subtypes(self, ename):
        return [e.name for e in self.entities if ename in e.supers]

    # ---- types
    def resolve(self, t):
        """Follow Named references to defined types down to the structure that decides the Part 21
        literal: returns ('simple', NAME) | ('enum', items, typename) | ('select', members, typename)
        | ('entity', name) | ('aggr', Aggr)"""
        types, ents = self.tmap()
        if isinstance(t, Simple):
            return ('simple', t.name)
        if isinstance(t, Aggr):
            return ('aggr', t)
        if isinstance(t, Named):
            if t.name in ents:
                return ('entity', t.name)
            td = types[t.name]
            b = td.body
            if isinstance(b, tuple) and b[0] == 'enum':
                return ('enum', b[1], td.name)
            if isinstance(b, tuple) and b[0] == 'select':
                return ('select', b[1], td.name)
            r = self.resolve(b)
            if r[0] in ('enum', 'select'):
                return r     # renamed enum/select keep the items/members (and the original's keyword set)
            return r
        raise TypeError(t)

    def cat(self, t):
        r = self.resolve(t)
        if r[0] == 'simple':
            return r[1]
        return {'enum': 'ENUM', 'select': 'SELECT', 'entity': 'REF', 'aggr': 'AGGR'}[r[0]]


# ------------------------------------------------------------------ literal alternatives

LIT = {
    'INTEGER': ['7', '0', '-1', '+7', '2147483648', '9223372036854775806', '-9223372036854775807'],
    'REAL': ['1.5', '0.', '-0.5', '1.E5', '1.5E-3', '+1.E+10', '1.0E-300', '123456789012345678.', '1.7976931348623E308', '0.1', '3.14159265358979'],
    'NUMBER': ['2.5', '0.', '-1.E-7', '1.E5'],
    'STRING': ["'abc'", "''", "'a'", "''''", "'it''s'", "'\\\\'", "'\\S\\a'", "'\\X\\E9'", "'\\X2\\00E9\\X0\\'",
               "'\\X4\\0001F600\\X0\\'", "'\\PA\\'", "'a#1,(;/*b*/)$'", "'  lead and trail  '", "'a''''b'"],
    'BINARY': ['"1A"', '"0"', '"3FF"', '"0ABCDEF0123456789"'],
    'BOOLEAN': ['.T.', '.F.'],
    'LOGICAL': ['.U.', '.T.', '.F.'],
}


class Lits:
    """Part 21 literal alternatives for a type, default first.  ref_ids: entity name -> list of
    instance ids available as targets (first = default)."""

    def __init__(self, schema, ref_ids):
        self.s = schema
        self.ref_ids = ref_ids

    def select_alts(self, members, short=False):
        out = []
        types, ents = self.s.tmap()
        for m in members:
            if m in ents:
                out += ['#%d' % i for i in self.ref_ids.get(m, [])[:1 if short else 2]]
                continue
            r = self.s.resolve(Named(m))
            if r[0] == 'select':
                out += self.select_alts(r[1], short)
            else:
                inner = self.alts(types[m].body if not isinstance(types[m].body, tuple) else Named(m), short=short, _raw_named=m)
                out += ['%s(%s)' % (m.upper(), x) for x in (inner[:1] if short else inner)]
        return out

    def alts(self, t, short=False, _raw_named=None):
        r = self.s.resolve(t)
        k = r[0]
        if k == 'simple':
            a = LIT[r[1]]
            return a[:2] if short else list(a)
        if k == 'enum':
            a = ['.%s.' % i.upper() for i in r[1]]
            return a[:2] if short else a
        if k == 'entity':
            # instances of the entity or of its subtypes
            ids = list(self.ref_ids.get(r[1], []))
            for sub in self._all_subtypes(r[1]):
                ids += self.ref_ids.get(sub, [])
            a = ['#%d' % i for i in ids]
            return a[:2] if short else a
        if k == 'select':
            return self.select_alts(r[1], short)
        if k == 'aggr':
            ag = r[1]
            el = self.alts(ag.elem, short=True)
            elfull = el if short else self.alts(ag.elem)
            d = el[0]
            d2 = el[1] if len(el) > 1 else el[0]
            lo = ag.lo if (ag.kind != 'ARRAY' and isinstance(ag.lo, int)) else 0
            out = []
            if ag.kind == 'ARRAY':
                n = ag.hi - ag.lo + 1
                base = [d, d2, d][:n] + [d] * max(0, n - 3)
                out.append('(%s)' % ','.join(base))
                if not short:
                    for x in elfull[1:]:
                        for pos in sorted({0, n - 1}):
                            b = list(base)
                            b[pos] = x
                            out.append('(%s)' % ','.join(b))
                    if ag.optional:
                        for pos in sorted({0, n - 1}):
                            b = list(base)
                            b[pos] = '$'
                            out.append('(%s)' % ','.join(b))
                return out
            uniq = ag.kind == 'SET' or ag.unique
            out.append('(%s,%s)' % (d, d2))
            if short:
                return out
            hi = ag.hi if isinstance(ag.hi, int) else 99
            for n in (0, 1, 3):
                if lo <= n <= hi:
                    items = [d, d2, elfull[2] if len(elfull) > 2 else d][:n]
                    if uniq and len(set(items)) != len(items):
                        continue
                    out.append('(%s)' % ','.join(items))
            if lo <= 2 <= hi:
                for x in elfull[1:]:
                    if not (uniq and x == d2):
                        out.append('(%s,%s)' % (x, d2))
                    if not (uniq and x == d):
                        out.append('(%s,%s)' % (d, x))
            seen = []
            for o in out:
                if o not in seen:
                    seen.append(o)
            return seen
        raise TypeError(k)

    def _all_subtypes(self, n):
        out = []
        for s in self.s.subtypes(n):
            out.append(s)
            out += self._all_subtypes(s)
        return out


# ------------------------------------------------------------------ families

def support_decls():
    """named types and target entities shared by every family schema"""
    types = [
        TypeDecl('color', ('enum', ['red', 'green', 'blue'])),
        TypeDecl('finish', ('enum', ['matt_coated', 'matt', 'gloss_2', 'gloss', 'g'])),      # items that are proper prefixes of items declared BEFORE them
        TypeDecl('dint', Simple('INTEGER')),
        TypeDecl('dreal', Simple('REAL')),
        TypeDecl('dstr', Simple('STRING')),
        TypeDecl('dbool', Simple('BOOLEAN')),
        TypeDecl('dlog', Simple('LOGICAL')),
        TypeDecl('dnum', Simple('NUMBER')),
        TypeDecl('dbin', Simple('BINARY')),
        TypeDecl('ddint', Named('dint')),
        TypeDecl('lsti', Aggr('LIST', 0, None, Simple('INTEGER'))),
        TypeDecl('lstr', Aggr('LIST', 0, None, Simple('REAL'))),
        TypeDecl('lste', Aggr('LIST', 0, None, Named('tgt'))),                   # a named aggregate of entity references
        TypeDecl('dreal6', Simple('REAL', 6)),
        TypeDecl('dstr8', Simple('STRING', 8)),
        TypeDecl('dstr4f', Simple('STRING', 4, True)),
        TypeDecl('dbin8', Simple('BINARY', 8)),
        TypeDecl('seldef', ('select', ['dint', 'dstr'])),
        TypeDecl('selent', ('select', ['tgt', 'tgt2'])),
        TypeDecl('selmix', ('select', ['color', 'dreal', 'tgt'])),
        TypeDecl('selpfx', ('select', ['finish', 'dint'])),
        TypeDecl('selnest', ('select', ['seldef', 'tgt2'])),
        TypeDecl('selagg', ('select', ['lsti', 'dstr'])),
        TypeDecl('selnum', ('select', ['dnum', 'dbin', 'dbool', 'dlog'])),       # members based on NUMBER, BINARY, BOOLEAN, LOGICAL
    ]
    ents = [
        Entity('tgt', [Attr('n', Simple('INTEGER'))]),
        Entity('tgt2', [Attr('s', Simple('STRING'))]),
        Entity('tgtsub', [Attr('m', Simple('INTEGER'))], supers=['tgt']),
    ]
    return types, ents


SUPPORT_POP = [(1, 'TGT', ['11']), (2, 'TGT', ['22']), (3, 'TGT2', ["'t3'"]), (4, 'TGT2', ["'t4'"]), (5, 'TGTSUB', ['55', '56'])]
SUPPORT_REFS = {'tgt': [1, 2], 'tgt2': [3, 4], 'tgtsub': [5]}

RENAMED = [
    TypeDecl('color2', Named('color')),        # renamed enumeration
    TypeDecl('seldef2', Named('seldef')),      # renamed select
    TypeDecl('lsti2', Named('lsti')),          # renamed aggregate (of integers)
    TypeDecl('lste2', Named('lste')),          # renamed aggregate of entity references
]


def kinds(thorough=False, renamed=True):
    """(id, type expression) of the attribute kinds of family K"""
    S, N, A = Simple, Named, Aggr
    ks = [(s.lower()[:4] if s not in ('BINARY', 'BOOLEAN') else s.lower()[:3], S(s)) for s in SIMPLE]
    ks += [('enum', N('color')), ('enumpfx', N('finish')), ('dint', N('dint')), ('dreal', N('dreal')), ('dstr', N('dstr')), ('dbool', N('dbool')),
           ('dlog', N('dlog')), ('dnum', N('dnum')), ('dbin', N('dbin')), ('ddint', N('ddint')),
           ('ref', N('tgt')), ('ref2', N('tgt2')),
           ('seldef', N('seldef')), ('selent', N('selent')), ('selmix', N('selmix')), ('selnest', N('selnest')), ('selagg', N('selagg')), ('selnum', N('selnum')), ('selpfx', N('selpfx')), ('list_enumpfx', A('LIST', 0, None, N('finish'))),
           ('dlsti', N('lsti')), ('dlste', N('lste')), ('dreal6', N('dreal6')),
           ('real6', S('REAL', 6)), ('list_real4', A('LIST', 1, None, S('REAL', 4)))]
    if renamed:
        ks += [('enum2', N('color2')), ('seldef2', N('seldef2')), ('dlsti2', N('lsti2')), ('dlste2', N('lste2'))]
    bases = [('int', S('INTEGER')), ('real', S('REAL')), ('str', S('STRING')), ('bin', S('BINARY')), ('bool', S('BOOLEAN')),
             ('log', S('LOGICAL')), ('num', S('NUMBER')), ('enum', N('color')), ('ref', N('tgt')), ('seldef', N('seldef')), ('selent', N('selent')),
             ('dint', N('dint'))]
    for ak in ('LIST', 'SET', 'BAG'):
        for bid, b in bases:
            ks.append(('%s_%s' % (ak.lower(), bid), A(ak, 0, None, b)))
    for bid, b in bases:
        ks.append(('array_%s' % bid, A('ARRAY', 1, 3, b)))
    ks += [
        ('list13_int', A('LIST', 1, 3, S('INTEGER'))),
        ('listu_int', A('LIST', 0, None, S('INTEGER'), unique=True)),
        ('set25_str', A('SET', 2, 5, S('STRING'))),
        ('arrayopt_int', A('ARRAY', 1, 3, S('INTEGER'), optional=True)),
        ('arrayopt_ref', A('ARRAY', 0, 1, N('tgt'), optional=True)),
        ('arrayneg_real', A('ARRAY', -1, 1, S('REAL'))),
        ('list_list_int', A('LIST', 0, None, A('LIST', 0, None, S('INTEGER')))),
        ('list_list_real', A('LIST', 1, None, A('LIST', 1, None, S('REAL')))),
        ('array_array_real', A('ARRAY', 1, 2, A('ARRAY', 1, 2, S('REAL')))),
        ('list_set_ref', A('LIST', 0, None, A('SET', 0, None, N('tgt')))),
        ('list_nolim_str', A('LIST', None, None, S('STRING'))),
    ]
    return ks


CORE12 = ['inte', 'real', 'stri', 'bin', 'boo', 'enum', 'ref', 'seldef', 'selent', 'list_int', 'list_str', 'list_ref']


def family_K(name='fk', pairs='core', optional=True, renamed=True, only=None):
    """One packed schema: e_<k> (required), o_<k> (OPTIONAL) per kind, p_<k1>_<k2> per ordered pair."""
    types, ents = support_decls()
    if renamed:
        types += RENAMED
    sch = Schema(name, types, ents)
    ks = kinds(renamed=renamed)
    if only is not None:
        ks = [k for k in ks if k[0] in only]
    kd = dict(ks)
    for kid, t in ks:
        sch.add(Entity('e_' + kid, [Attr('a', t)]))
        if optional:
            sch.add(Entity('o_' + kid, [Attr('a', t, optional=True)]))
    if pairs:
        core = [k for k in CORE12 if k in kd]
        if pairs == 'core':
            # every kind of CORE12 followed by every other kind of CORE12 (what follows a value matters to the reader)
            prs = [(a, b) for a in core for b in core]
        else:
            prs = pairs
        for a, b in prs:
            sch.add(Entity('p_%s_%s' % (a, b), [Attr('a', kd[a]), Attr('b', kd[b])]))
    return sch


def family_I(name='fi'):
    """Inheritance shapes: chains, diamond, two supertypes, derived/redeclared attributes, ABSTRACT,
    ONEOF/AND/ANDOR supertype expressions."""
    S, N, A = Simple, Named, Aggr
    types, ents = support_decls()
    sch = Schema(name, types, ents)
    I, R, St, E = S('INTEGER'), S('REAL'), S('STRING'), N('color')
    sch.add(
        # chain depth 3
        Entity('c1', [Attr('i1', I), Attr('s1', St, optional=True)]),
        Entity('c2', [Attr('r2', R)], supers=['c1']),
        Entity('c3', [Attr('e3', E), Attr('l3', A('LIST', 0, None, St))], supers=['c2']),
        # abstract root with ONEOF
        Entity('ab', [Attr('nm', St)], abstract=True, supexpr='ONEOF (ab1, ab2)'),
        Entity('ab1', [Attr('x', I)], supers=['ab']),
        Entity('ab2', [Attr('y', R), Attr('t', N('tgt'))], supers=['ab']),
        # diamond
        Entity('d0', [Attr('a0', I)], supexpr='d1 ANDOR d2'),
        Entity('d1', [Attr('a1', St)], supers=['d0']),
        Entity('d2', [Attr('a2', R)], supers=['d0']),
        Entity('d3', [Attr('a3', E)], supers=['d1', 'd2']),
        # two root supertypes
        Entity('m1', [Attr('p', I)]),
        Entity('m2', [Attr('q', St)]),
        Entity('m12', [Attr('r', N('tgt'), optional=True)], supers=['m1', 'm2']),
        # derived and redeclared attributes
        Entity('v0', [Attr('w', R), Attr('h', R)], derived=[Derived('area', R, 'w * h')]),
        Entity('v1', [Attr('k', I)], supers=['v0'], derived=[Derived('h', R, '2.0', redeclares='v0')]),
        Entity('v2', [Attr('z', St)], supers=['v1']),
        # an explicit redeclaration (same Part 21 slot, specialised type), own attributes after it, one of them derived further down
        Entity('x0', [Attr('q', S('NUMBER')), Attr('kx', I)]),
        Entity('x1', [Attr('q', R, redeclares='x0'), Attr('wx', R), Attr('bx', I)], supers=['x0']),
        Entity('x2', [Attr('ux', I)], supers=['x1'], derived=[Derived('wx', R, '1.0', redeclares='x1')]),
        # AND constraint
        Entity('n0', [Attr('b0', I)], supexpr='n1 AND n2'),
        Entity('n1', [Attr('b1', I)], supers=['n0']),
        Entity('n2', [Attr('b2', St)], supers=['n0']),
        Entity('n12', [Attr('b12', R)], supers=['n1', 'n2']),
        # subtype whose attributes are of select / aggregate kinds
        Entity('k0', [Attr('sel', N('seldef')), Attr('refs', A('SET', 0, None, N('tgt')))]),
        Entity('k1', [Attr('sel2', N('selent'), optional=True), Attr('arr', A('ARRAY', 1, 2, R))], supers=['k0']),
    )
    sch.noinst = {'n1', 'n2', 'n0'}    # n0 SUPERTYPE OF (n1 AND n2): neither may be instantiated without the other
    return sch


# ------------------------------------------------------------------ populations

HEADER = ("ISO-10303-21;\nHEADER;\nFILE_DESCRIPTION(('verif'),'2;1');\n"
          "FILE_NAME('n','2020-01-01T00:00:00',('au'),('org'),'pp','os','auth');\nFILE_SCHEMA(('%s'));\nENDSEC;\nDATA;\n")
FOOTER = "ENDSEC;\nEND-ISO-10303-21;\n"


def inst_text(iid, ename, params):
    return '#%d=%s(%s);' % (iid, ename.upper(), ','.join(params))


def file_text(schema_name, insts, header=None):
    """insts: list of (id, ENTITY, [param texts]) or raw strings"""
    body = []
    for i in insts:
        body.append(i if isinstance(i, str) else inst_text(*i))
    return (header or HEADER) % schema_name.upper() + '\n'.join(body) + '\n' + FOOTER


def default_params(schema, ename, lits, optional_as_null=False):
    out = []
    for owner, a, redecl in schema.p21_attrs(ename):
        if redecl:
            out.append('*')
        elif a.optional and optional_as_null:
            out.append('$')
        else:
            out.append(lits.alts(a.type, short=True)[0])
    return out
